------------------------------ MODULE LoadBalancer ------------------------------
(* Round-robin load balancer and query plans (proxycore/lb.go).                   *)
(*                                                                                *)
(* State of the Go code: `hosts` (copy-on-write slice published through an        *)
(* atomic.Value), `index` (atomic counter), and for every query plan handed out   *)
(* a snapshot of the slice, the counter value at creation (offset) and the number *)
(* of hosts yielded so far (index).  One action per public call:                  *)
(*   OnEvent(Bootstrap) / OnEvent(Add) / OnEvent(Remove) / NewQueryPlan / Next.   *)
(* The counter of the specification is an ideal natural number; the width of the  *)
(* Go counter is a conformance matter (the replay presets the Go counter to       *)
(* values congruent to CtrStart modulo lcm(1..5) around 2^31 and 2^32).           *)
EXTENDS Naturals, Sequences, FiniteSets, TLC, Json

CONSTANTS N,          \* number of host identities h1..hN
          MaxEvents,  \* bound on Add/Remove events after bootstrap
          MaxPlans,   \* bound on plans created
          CtrStarts,  \* set of initial counter values
          MaxLen      \* bound on the length of an exported behaviour (export cfg only)

VARIABLES hosts,   \* current host list (sequence of host names)
          booted,  \* bootstrap event delivered
          ctr,     \* round-robin counter
          plans,   \* sequence of plans: [snap, off, idx, out, done]
          nev,     \* membership events so far
          hist     \* history of calls and their expected results (export only)

vars == <<hosts, booted, ctr, plans, nev, hist>>
view == <<hosts, booted, ctr, plans, nev>>

Host(i) == "h" \o ToString(i)
AllHosts == {Host(i) : i \in 1..N}
Range(s) == {s[i] : i \in DOMAIN s}
\* the cluster delivers bootstrap hosts sorted by key
SortedSeq(S) == LET RECURSIVE Build(_)
                    Build(i) == IF i > N THEN <<>>
                                ELSE (IF Host(i) \in S THEN <<Host(i)>> ELSE <<>>) \o Build(i + 1)
                IN Build(1)
RemoveFirst(s, h) ==
    IF h \notin Range(s) THEN s
    ELSE LET i == CHOOSE k \in DOMAIN s : s[k] = h /\ \A j \in 1..(k - 1) : s[j] # h
         IN SubSeq(s, 1, i - 1) \o SubSeq(s, i + 1, Len(s))

Init == /\ hosts = <<>> /\ booted = FALSE /\ ctr \in CtrStarts
        /\ plans = <<>> /\ nev = 0
        /\ hist = <<[a |-> "init", ctr |-> ctr]>>

Bootstrap(S) ==
    /\ ~booted
    /\ booted' = TRUE
    /\ hosts' = SortedSeq(S)
    /\ hist' = Append(hist, [a |-> "bootstrap", hosts |-> SortedSeq(S)])
    /\ UNCHANGED <<ctr, plans, nev>>

\* Cluster.mergeHosts only announces hosts that are not yet known (Topology!NoDupAdd)
Add(h) ==
    /\ booted /\ nev < MaxEvents /\ h \notin Range(hosts)
    /\ hosts' = Append(hosts, h)
    /\ nev' = nev + 1
    /\ hist' = Append(hist, [a |-> "add", h |-> h])
    /\ UNCHANGED <<booted, ctr, plans>>

\* a Remove for a host that is not present is a no-op
Remove(h) ==
    /\ booted /\ nev < MaxEvents
    /\ hosts' = RemoveFirst(hosts, h)
    /\ nev' = nev + 1
    /\ hist' = Append(hist, [a |-> "remove", h |-> h])
    /\ UNCHANGED <<booted, ctr, plans>>

NewPlan ==
    /\ Len(plans) < MaxPlans
    /\ plans' = Append(plans, [snap |-> hosts, off |-> ctr, idx |-> 0, out |-> <<>>, done |-> FALSE])
    /\ ctr' = ctr + 1
    /\ hist' = Append(hist, [a |-> "newplan", p |-> Len(plans) + 1])
    /\ UNCHANGED <<hosts, booted, nev>>

Yield(pl) == pl.snap[((pl.off + pl.idx) % Len(pl.snap)) + 1]

Next(p) ==
    /\ p \in DOMAIN plans /\ ~plans[p].done
    /\ LET pl == plans[p] IN
         IF pl.idx < Len(pl.snap)
         THEN /\ plans' = [plans EXCEPT ![p] = [pl EXCEPT !.idx = pl.idx + 1, !.out = Append(pl.out, Yield(pl))]]
              /\ hist' = Append(hist, [a |-> "next", p |-> p, y |-> Yield(pl)])
         ELSE /\ plans' = [plans EXCEPT ![p] = [pl EXCEPT !.done = TRUE]]
              /\ hist' = Append(hist, [a |-> "next", p |-> p, y |-> "nil"])
    /\ UNCHANGED <<hosts, booted, ctr, nev>>

NextStep == \/ \E S \in SUBSET AllHosts : Bootstrap(S)
            \/ \E h \in AllHosts : Add(h) \/ Remove(h)
            \/ NewPlan
            \/ \E p \in 1..MaxPlans : Next(p)

Spec == Init /\ [][NextStep]_vars

-----------------------------------------------------------------------------
NoDup(s) == \A i, j \in DOMAIN s : i # j => s[i] # s[j]

TypeOK == /\ NoDup(hosts)
          /\ \A p \in DOMAIN plans : plans[p].idx <= Len(plans[p].snap)

\* C15: a plan yields every host of its snapshot exactly once, then reports exhaustion
PlanExactlyOnce ==
    \A p \in DOMAIN plans :
        LET pl == plans[p] IN
        /\ NoDup(pl.out)
        /\ Range(pl.out) \subseteq Range(pl.snap)
        /\ Len(pl.out) = pl.idx
        /\ (pl.idx = Len(pl.snap) => Range(pl.out) = Range(pl.snap))
        /\ (pl.done => pl.idx = Len(pl.snap))

\* C15: consecutive plans over the same membership start at consecutive hosts
FirstIdx(pl) == pl.off % Len(pl.snap)
ConsecutiveStarts ==
    \A p \in DOMAIN plans :
        (p + 1 \in DOMAIN plans /\ plans[p].snap = plans[p + 1].snap /\ Len(plans[p].snap) > 0)
            => FirstIdx(plans[p + 1]) = (FirstIdx(plans[p]) + 1) % Len(plans[p].snap)

\* C15: over a run of plans with stable membership first-choice counts differ by at most one
Balance ==
    \A a, b \in DOMAIN plans :
        (a <= b /\ Len(plans[a].snap) > 0 /\ \A q \in a..b : plans[q].snap = plans[a].snap) =>
            LET cnt(i) == Cardinality({q \in a..b : FirstIdx(plans[q]) = i})
                L == Len(plans[a].snap)
            IN \A i, j \in 0..(L - 1) : cnt(i) <= cnt(j) + 1

\* C15: a plan's snapshot is the membership at its creation, and it never changes afterwards
SnapshotImmutable ==
    [][\A p \in DOMAIN plans : plans'[p].snap = plans[p].snap /\ plans'[p].off = plans[p].off]_vars
NewPlanSeesCurrent ==
    [][Len(plans') > Len(plans) => plans'[Len(plans')].snap = hosts]_vars

-----------------------------------------------------------------------------
\* export: every behaviour of length MaxLen is printed as one JSON line
ExportConstraint ==
    /\ Len(hist) <= MaxLen
    /\ ((Len(hist) = MaxLen \/ ~ENABLED NextStep) => PrintT(<<"BEH", ToJson(hist)>>))
ExportNext == NextStep /\ Len(hist) < MaxLen
ExportSpec == Init /\ [][ExportNext]_vars
=============================================================================
