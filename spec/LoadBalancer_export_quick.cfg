SPECIFICATION ExportSpec
CONSTANTS
  N = 3
  MaxEvents = 2
  MaxPlans = 2
  CtrStarts = {0, 15}
  MaxLen = 9
CONSTRAINT ExportConstraint
CHECK_DEADLOCK FALSE
