SPECIFICATION ExportSpec
CONSTANTS
  N = 4
  MaxEvents = 2
  MaxPlans = 2
  CtrStarts = {0, 14, 15}
  MaxLen = 10
CONSTRAINT ExportConstraint
CHECK_DEADLOCK FALSE
