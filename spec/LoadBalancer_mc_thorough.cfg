SPECIFICATION Spec
CONSTANTS
  N = 4
  MaxEvents = 3
  MaxPlans = 3
  CtrStarts = {0, 1, 2, 3}
  MaxLen = 0
VIEW view
INVARIANTS TypeOK PlanExactlyOnce ConsecutiveStarts Balance
PROPERTIES SnapshotImmutable NewPlanSeesCurrent
CHECK_DEADLOCK FALSE
