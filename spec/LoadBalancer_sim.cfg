SPECIFICATION ExportSpec
CONSTANTS
  N = 5
  MaxEvents = 12
  MaxPlans = 12
  CtrStarts = {0, 7, 13, 14, 15}
  MaxLen = 60
CONSTRAINT ExportConstraint
CHECK_DEADLOCK FALSE
