------------------------------ MODULE Pending ------------------------------
(* The pending-request table of one backend connection (proxycore/requests.go):         *)
(* a pool of free stream ids (a buffered channel) and a concurrent map id -> request.     *)
(* Senders (any goroutine holding the read side of the connection's closing lock) call   *)
(* store, the connection's reader calls loadAndDelete for every response frame, and       *)
(* closing ranges over the map when the connection goes away.  Nothing but the two        *)
(* concurrent containers synchronises these calls, so every container operation is one    *)
(* action here and a call is a sequence of them:                                          *)
(*                                                                                       *)
(*   store(r):         Take   (non-blocking receive of an id; -1 when none is free)       *)
(*                     Put    (map[id] := r)                                               *)
(*   loadAndDelete(s): Swap   (atomic load-and-delete of map[s])                           *)
(*                     Release(the id goes back to the pool) - only when an entry was found*)
(*   closing():        Visit* (Range: one visit per key; weakly consistent)                *)
(*                                                                                       *)
(* C01 needs every stored request to be found by the loadAndDelete of its stream id (or   *)
(* visited by closing); C02 needs an id to belong to at most one request at a time.       *)
(* The hazard switch SplitSwap models loadAndDelete written as Load, Release, Delete       *)
(* (a seeded change): TLC then finds the lost entry.                                       *)
(*                                                                                       *)
(* Requests are positive integers, 0 is "no request"; stream ids are 0..MaxId, -1 "none". *)
EXTENDS Integers, Sequences, FiniteSets, TLC

CONSTANTS MaxId,        \* largest stream id the module can talk about
          Threads,
          SplitSwap     \* hazard switch (FALSE describes the tree)

VARIABLES free,    \* set of ids in the pool
          map,     \* id -> request or 0
          op,      \* thread -> record of the call in progress ([k |-> "idle"] when none)
          holds,   \* ghost: id -> request whose store returned (or is about to return) that id and that no loadAndDelete took yet
          taken    \* ghost: request -> number of loadAndDelete calls that returned it

pvars == <<free, map, op, holds, taken>>

Ids == 0..MaxId
Idle == [k |-> "idle", pc |-> "idle"]
NoMap == [s \in Ids |-> 0]

(* a change of map[s] makes s unstable for the Range calls in progress *)
Unstable(f, s) == [t \in Threads |-> IF f[t].k = "closing" THEN [f[t] EXCEPT !.st = @ \ {s}] ELSE f[t]]

PInit(m) ==
    /\ free = 0..(m - 1)
    /\ map = NoMap
    /\ op = [t \in Threads |-> Idle]
    /\ holds = NoMap
    /\ taken = <<>>

PReset(m) ==
    /\ free' = 0..(m - 1)
    /\ map' = NoMap
    /\ op' = [t \in Threads |-> Idle]
    /\ holds' = NoMap
    /\ taken' = <<>>

Bump(r) == IF r \in DOMAIN taken THEN [taken EXCEPT ![r] = @ + 1] ELSE (r :> 1) @@ taken

(* ------------------------------- store -------------------------------------------- *)
CallStore(t, r) ==
    /\ op[t].k = "idle" /\ r > 0
    /\ op' = [op EXCEPT ![t] = [k |-> "store", pc |-> "take", r |-> r, s |-> -1]]
    /\ UNCHANGED <<free, map, holds, taken>>

StoreTake(t) ==
    /\ op[t].k = "store" /\ op[t].pc = "take"
    /\ IF free = {}
       THEN /\ op' = [op EXCEPT ![t].pc = "done"]
            /\ UNCHANGED free
       ELSE \E s \in free :
            /\ free' = free \ {s}
            /\ op' = [op EXCEPT ![t].pc = "put", ![t].s = s]
    /\ UNCHANGED <<map, holds, taken>>

StorePut(t) ==
    /\ op[t].k = "store" /\ op[t].pc = "put"
    /\ map' = [map EXCEPT ![op[t].s] = op[t].r]
    /\ holds' = [holds EXCEPT ![op[t].s] = op[t].r]
    /\ op' = Unstable([op EXCEPT ![t].pc = "done"], op[t].s)
    /\ UNCHANGED <<free, taken>>

RetStore(t, s) ==
    /\ op[t].k = "store" /\ op[t].pc = "done" /\ op[t].s = s
    /\ op' = [op EXCEPT ![t] = Idle]
    /\ UNCHANGED <<free, map, holds, taken>>

(* --------------------------- loadAndDelete ---------------------------------------- *)
CallLad(t, s) ==
    /\ op[t].k = "idle" /\ s \in Ids
    /\ op' = [op EXCEPT ![t] = [k |-> "lad", pc |-> "swap", r |-> 0, s |-> s]]
    /\ UNCHANGED <<free, map, holds, taken>>

LadSwap(t) ==
    /\ ~SplitSwap
    /\ op[t].k = "lad" /\ op[t].pc = "swap"
    /\ LET s == op[t].s IN
       IF map[s] = 0
       THEN /\ op' = [op EXCEPT ![t].pc = "done"]
            /\ UNCHANGED <<map, holds, taken>>
       ELSE /\ op' = Unstable([op EXCEPT ![t].pc = "release", ![t].r = map[s]], s)
            /\ map' = [map EXCEPT ![s] = 0]
            /\ holds' = [holds EXCEPT ![s] = IF @ = map[s] THEN 0 ELSE @]
            /\ taken' = Bump(map[s])
    /\ UNCHANGED free

LadRelease(t) ==
    /\ op[t].k = "lad" /\ op[t].pc = "release"
    /\ free' = free \cup {op[t].s}
    /\ op' = [op EXCEPT ![t].pc = IF SplitSwap THEN "delete" ELSE "done"]
    /\ UNCHANGED <<map, holds, taken>>

(* the hazard: Load, Release, Delete *)
LadLoad(t) ==
    /\ SplitSwap
    /\ op[t].k = "lad" /\ op[t].pc = "swap"
    /\ LET s == op[t].s IN
       IF map[s] = 0
       THEN /\ op' = [op EXCEPT ![t].pc = "done"]
            /\ UNCHANGED <<holds, taken>>
       ELSE /\ op' = [op EXCEPT ![t].pc = "release", ![t].r = map[s]]
            /\ holds' = [holds EXCEPT ![s] = IF @ = map[s] THEN 0 ELSE @]
            /\ taken' = Bump(map[s])
    /\ UNCHANGED <<free, map>>

LadDelete(t) ==
    /\ SplitSwap
    /\ op[t].k = "lad" /\ op[t].pc = "delete"
    /\ map' = [map EXCEPT ![op[t].s] = 0]
    /\ op' = Unstable([op EXCEPT ![t].pc = "done"], op[t].s)
    /\ UNCHANGED <<free, holds, taken>>

RetLad(t, r) ==
    /\ op[t].k = "lad" /\ op[t].pc = "done" /\ op[t].r = r
    /\ op' = [op EXCEPT ![t] = Idle]
    /\ UNCHANGED <<free, map, holds, taken>>

(* ------------------------------- closing ------------------------------------------- *)
(* Range visits no key twice; a key whose entry is not touched during the call is visited   *)
(* exactly once; for a key stored or deleted meanwhile any of its values may be reported.   *)
(* `st` = keys untouched since the call began, `vk` = keys visited, `seen` = requests seen. *)
CallClosing(t) ==
    /\ op[t].k = "idle"
    /\ op' = [op EXCEPT ![t] = [k |-> "closing", pc |-> "range", st |-> Ids, vk |-> {}, seen |-> {}]]
    /\ UNCHANGED <<free, map, holds, taken>>

ClosingVisit(t) ==
    /\ op[t].k = "closing" /\ op[t].pc = "range"
    /\ \E s \in Ids \ op[t].vk :
         /\ map[s] # 0
         /\ op' = [op EXCEPT ![t].vk = @ \cup {s}, ![t].seen = @ \cup {map[s]}]
    /\ UNCHANGED <<free, map, holds, taken>>

RetClosing(t, seen) ==
    /\ op[t].k = "closing" /\ op[t].pc = "range" /\ op[t].seen = seen
    /\ \A s \in op[t].st : map[s] # 0 => s \in op[t].vk
    /\ op' = [op EXCEPT ![t] = Idle]
    /\ UNCHANGED <<free, map, holds, taken>>

Internal(t) == StoreTake(t) \/ StorePut(t) \/ LadSwap(t) \/ LadRelease(t) \/ LadLoad(t) \/ LadDelete(t) \/ ClosingVisit(t)

(* ------------------------------- properties ---------------------------------------- *)
InTransit == {op[t].s : t \in {u \in Threads : (op[u].k = "store" /\ op[u].pc = "put") \/ (op[u].k = "lad" /\ op[u].pc = "release")}}
Mapped == {s \in Ids : map[s] # 0}

(* every id of the pool is in exactly one place: free, in the hands of a call, or in the map *)
Conservation(m) ==
    /\ free \cup InTransit \cup Mapped = 0..(m - 1)
    /\ free \cap InTransit = {} /\ free \cap Mapped = {} /\ InTransit \cap Mapped = {}
    /\ \A t, u \in Threads : (t # u /\ op[t].k \in {"store", "lad"} /\ op[u].k \in {"store", "lad"}
                               /\ op[t].pc \in {"put", "release"} /\ op[u].pc \in {"put", "release"}) => op[t].s # op[u].s

(* C01: a request whose store handed out id s stays findable under s until a loadAndDelete takes it *)
Retrievable == \A s \in Ids : holds[s] # 0 => map[s] = holds[s]
(* C01: no request is handed to two loadAndDelete calls *)
TakenOnce == \A r \in DOMAIN taken : taken[r] <= 1
(* C02: an id is handed out only while no request holds it *)
NoAlias == \A t \in Threads : (op[t].k = "store" /\ op[t].pc = "put") => holds[op[t].s] = 0 /\ map[op[t].s] = 0
=============================================================================
