------------------------------ MODULE PendingMC ------------------------------
(* Exhaustive exploration of Pending.tla: every interleaving of the container operations  *)
(* of a few threads calling store / loadAndDelete / closing on a pool of M ids.           *)
EXTENDS Pending
CONSTANTS M, MaxReq, MaxCalls
VARIABLES nreq, ncalls
vars == <<free, map, op, holds, taken, nreq, ncalls>>

Init == PInit(M) /\ nreq = 0 /\ ncalls = 0

Call(t) ==
    /\ ncalls < MaxCalls /\ ncalls' = ncalls + 1
    /\ \/ nreq < MaxReq /\ CallStore(t, nreq + 1) /\ nreq' = nreq + 1
       \/ \E s \in 0..(M - 1) : CallLad(t, s) /\ UNCHANGED nreq
       \/ CallClosing(t) /\ UNCHANGED nreq

Ret(t) ==
    /\ UNCHANGED <<nreq, ncalls>>
    /\ \/ op[t].k = "store" /\ RetStore(t, op[t].s)
       \/ op[t].k = "lad" /\ RetLad(t, op[t].r)
       \/ op[t].k = "closing" /\ RetClosing(t, op[t].seen)

Terminated == ncalls = MaxCalls /\ \A t \in Threads : op[t].k = "idle" /\ UNCHANGED vars

Next == (\E t \in Threads : Call(t) \/ Ret(t) \/ (Internal(t) /\ UNCHANGED <<nreq, ncalls>>)) \/ Terminated
Spec == Init /\ [][Next]_vars /\ WF_vars(Next)

ConservationM == Conservation(M)
(* every call returns *)
AllReturn == <>[](\A t \in Threads : op[t].k = "idle")
(* store fails only when no id is free at that moment - stated on the action *)
FailsOnlyWhenEmpty == [][\A t \in Threads : (op[t].k = "store" /\ op[t].pc = "take" /\ op'[t].pc = "done") => free = {}]_vars
(* a closing call reports every request that sat in the table during the whole call *)
ClosingComplete == [][\A t \in Threads : (op[t].k = "closing" /\ op'[t].k = "idle") =>
                        \A s \in Ids : (s \in op[t].st /\ map[s] # 0) => map[s] \in op[t].seen]_vars
=============================================================================
