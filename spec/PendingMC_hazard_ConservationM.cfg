SPECIFICATION Spec
CONSTANTS
  MaxId = 1
  Threads = {1, 2, 3}
  SplitSwap = TRUE
  M = 2
  MaxReq = 3
  MaxCalls = 5
INVARIANTS ConservationM
