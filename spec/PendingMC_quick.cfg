SPECIFICATION Spec
CONSTANTS
  MaxId = 1
  Threads = {1, 2, 3}
  SplitSwap = FALSE
  M = 2
  MaxReq = 3
  MaxCalls = 5
INVARIANTS ConservationM Retrievable TakenOnce NoAlias
PROPERTIES AllReturn FailsOnlyWhenEmpty ClosingComplete
