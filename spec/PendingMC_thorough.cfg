SPECIFICATION Spec
CONSTANTS
  MaxId = 2
  Threads = {1, 2, 3, 4}
  SplitSwap = FALSE
  M = 2
  MaxReq = 3
  MaxCalls = 6
INVARIANTS ConservationM Retrievable TakenOnce NoAlias
PROPERTIES FailsOnlyWhenEmpty ClosingComplete
