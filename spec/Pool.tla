-------------------------------- MODULE Pool --------------------------------
(* The reconnect loops of the proxy: connPool.stayConnected (one per pool slot) and    *)
(* the control-connection branch of Cluster.stayConnected, with the delay calculator    *)
(* of proxycore/reconnpolicy.go (C16: "reconnecting with delays that stay within the     *)
(* configured backoff bounds and reset after success").                                  *)
(*                                                                                       *)
(* A loop is a slot that is filled (has its connection) or empty.  Every reconnect       *)
(* attempt of an empty slot is preceded by a delay taken from the policy:                *)
(*     delay(k) = min(base + 2^k ms + jitter, max),  jitter in 85..114 ms,               *)
(*     delay(k) = max  for k >= floor(log2(base in ns))                                   *)
(* where k counts the calls of NextDelay since the last Reset (a successful connect).    *)
(* The pool loop calls NextDelay twice per attempt (once for the value it logs, once for  *)
(* the timer) - a deviation of the code from its own log line that is named here and not  *)
(* judged: k advances by one or by two per attempt.                                       *)
(*                                                                                       *)
(* Observable level: total actions that flag what the property forbids.  `ks` is the set  *)
(* of values k may have, given what was observed (no branching during trace validation).  *)
EXTENDS Naturals, Sequences, FiniteSets, TLC

CONSTANTS BaseUs, MaxUs,       \* configured bounds, microseconds
          BaseLog2,            \* floor(log2(base in ns)): attempts at which the policy answers max
          ConnectUs, SlackUs   \* one connection attempt may take this long; scheduling slack

VARIABLES slot,   \* key -> [st: filled | empty, ks: possible attempt counters]
          bad

MaxK == 40
AllK == 0..MaxK
Min2(a, b) == IF a < b THEN a ELSE b
RECURSIVE Pow2(_)
Pow2(k) == IF k = 0 THEN 1 ELSE 2 * Pow2(k - 1)
\* 2^k ms in microseconds, saturated well above any configured maximum (TLC integers are 32 bit)
ExpUs(k) == IF k >= 20 THEN 1000000000 ELSE Pow2(k) * 1000
Floor == Min2(BaseUs, MaxUs)
Lo(k) == IF k >= BaseLog2 THEN MaxUs ELSE Min2(BaseUs + ExpUs(k) + 85000, MaxUs)
Hi(k) == IF k >= BaseLog2 THEN MaxUs ELSE Min2(BaseUs + ExpUs(k) + 114999, MaxUs)
InRange(k, us) == Lo(k) <= us /\ us <= Hi(k)

Flag(ok, what, key) == IF ok THEN bad ELSE (IF Len(bad) < 200 THEN Append(bad, [p |-> "C16", what |-> what, key |-> key]) ELSE bad)
Fresh == [st |-> "empty", ks |-> {0}]
Get(key) == IF key \in DOMAIN slot THEN slot[key] ELSE Fresh

(* the slot obtains a connection: reconnectPolicy.Reset() *)
DoFill(key) ==
    /\ slot' = (key :> [st |-> "filled", ks |-> {0}]) @@ slot
    /\ UNCHANGED bad

(* the slot's connection is lost *)
DoClear(key) ==
    /\ slot' = (key :> [Get(key) EXCEPT !.st = "empty"]) @@ slot
    /\ UNCHANGED bad

(* the loop announces the delay before its next attempt; `waited` is the time that really passed until the   *)
(* slot's next step (0 = not observed)                                                                         *)
DoDelay(key, us, waited) ==
    LET s == Get(key)
        cand == {k \in s.ks : InRange(k, us)}
        within == Floor <= us /\ us <= MaxUs
        waitok == waited = 0 \/ (waited + SlackUs >= Floor /\ waited <= MaxUs + ConnectUs + SlackUs)
    IN
    /\ slot' = (key :> [st |-> "empty",
                        ks |-> IF cand = {} THEN AllK ELSE {Min2(k + 1, MaxK) : k \in cand} \cup {Min2(k + 2, MaxK) : k \in cand}]) @@ slot
    /\ bad' = Flag(within /\ cand # {} /\ waitok /\ s.st = "empty",
                   IF s.st # "empty" THEN "reconnect delay announced for a slot that holds a connection"
                   ELSE IF ~within THEN "reconnect delay outside [min(base, max), max]"
                   ELSE IF cand = {} THEN "reconnect delay does not continue the backoff series (not restarted after a successful connect, or not growing)"
                   ELSE "the wait actually made before the next reconnect step is outside the bounds", key)
=============================================================================
