------------------------------- MODULE PoolMC -------------------------------
(* Sanity of Pool.tla: a loop that follows the policy (advancing the attempt counter by one or by two per      *)
(* attempt, any jitter at the edges of its range) is never flagged; one that does not reset after success,      *)
(* or exceeds the maximum, is.                                                                                   *)
EXTENDS Pool
CONSTANTS Steps, Mutant     \* Mutant: "none" | "noreset" | "overmax"
VARIABLES k, n
vars == <<slot, bad, k, n>>
Key == "s"
Init == slot = ("s" :> [st |-> "filled", ks |-> {0}]) /\ bad = <<>> /\ k = 0 /\ n = 0
Lose == Get(Key).st = "filled" /\ n < Steps /\ DoClear(Key) /\ UNCHANGED k /\ n' = n + 1
Attempt ==
    /\ Get(Key).st = "empty" /\ n < Steps /\ n' = n + 1
    /\ \E us \in {Lo(k), Hi(k)} : \E inc \in {1, 2} :
         /\ DoDelay(Key, IF Mutant = "overmax" /\ k >= 3 THEN MaxUs + 1000 ELSE us, 0)
         /\ k' = Min2(k + inc, MaxK)
Succeed == Get(Key).st = "empty" /\ n < Steps /\ DoFill(Key) /\ k' = (IF Mutant = "noreset" THEN k ELSE 0) /\ n' = n + 1
Next == Lose \/ Attempt \/ Succeed
Spec == Init /\ [][Next]_vars
NeverFlagged == bad = <<>>
=============================================================================
