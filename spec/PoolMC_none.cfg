SPECIFICATION Spec
CONSTANTS
  BaseUs = 5000
  MaxUs = 400000
  BaseLog2 = 22
  ConnectUs = 400000
  SlackUs = 1500000
  Steps = 12
  Mutant = "none"
INVARIANT NeverFlagged
CHECK_DEADLOCK FALSE
