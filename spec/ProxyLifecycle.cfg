\* the current tree (spec/tree_switches.json: closing_flag_unset)
SPECIFICATION Spec
CONSTANTS
  Listeners = {"l1", "l2"}
  Clients = {"c1", "c2"}
  MaxSteps = 5
  ClosingFlagUnset = @CLOSINGFLAGUNSET@
INVARIANTS ServingNeedsConnectedOnly ClientsCameThroughListeners OneState Export
PROPERTY CloseIsFinal
CHECK_DEADLOCK FALSE
