---------------------------- MODULE ProxyLifecycle ----------------------------
(* The life cycle of a proxy.Proxy as its public API documents it (proxy/proxy.go        *)
(* NewProxy / Connect / Serve / Close and the sentinels ErrProxyNotConnected,             *)
(* ErrProxyAlreadyConnected, ErrProxyClosed; proxy/run.go drives exactly this sequence     *)
(* and turns a cancelled context into Close).  Outside the twenty listed properties; the   *)
(* driver replays every behaviour and reports deviations as notes.                         *)
(*                                                                                         *)
(*   Connect      - once; a second call is refused                                         *)
(*   Serve(l)     - needs a connected proxy that was not closed; several listeners share    *)
(*                  one backend                                                             *)
(*   Dial(c, l)   - a client connects through listener l and is served                      *)
(*   Close        - every Serve returns ErrProxyClosed, every client is disconnected,        *)
(*                  nothing is served afterwards (documented; with ClosingFlagUnset the       *)
(*                  model does what the code does: a later Serve serves again - the           *)
(*                  invariant NothingAfterClose then fails, which is the recorded deviation)  *)
EXTENDS Naturals, Sequences, FiniteSets, TLC, Json
CONSTANTS Listeners, Clients, MaxSteps,
          ClosingFlagUnset   \* TRUE: Close() never sets the flag that addListener tests (the current tree, see DESIGN section 8a):
                             \* a Serve after Close is treated like any other Serve
VARIABLES connected, closed, serving, returned, clients, via, hist
vars == <<connected, closed, serving, returned, clients, via, hist>>

Obs(a, arg, res) == [a |-> a, arg |-> arg, res |-> res,
                     serving |-> serving', returned |-> returned', alive |-> clients']

Init == /\ connected = FALSE /\ closed = FALSE /\ serving = {} /\ returned = {} /\ clients = {}
        /\ via = [c \in Clients |-> "none"] /\ hist = <<>>

Connect ==
    /\ UNCHANGED <<closed, serving, returned, clients, via>>
    /\ IF connected
       THEN connected' = connected /\ hist' = Append(hist, Obs("connect", "", "already_connected"))
       ELSE connected' = TRUE /\ hist' = Append(hist, Obs("connect", "", "ok"))

\* each listener is handed to Serve at most once
Serve(l) ==
    /\ l \notin serving \cup returned
    /\ UNCHANGED <<connected, closed, clients, via>>
    /\ CASE closed /\ ~ClosingFlagUnset -> serving' = serving /\ returned' = returned \cup {l} /\ hist' = Append(hist, Obs("serve", l, "closed"))
         [] ~connected -> serving' = serving /\ returned' = returned \cup {l} /\ hist' = Append(hist, Obs("serve", l, "not_connected"))
         [] OTHER -> serving' = serving \cup {l} /\ returned' = returned /\ hist' = Append(hist, Obs("serve", l, "serving"))

Dial(c, l) ==
    /\ l \in serving /\ via[c] = "none"
    /\ clients' = clients \cup {c} /\ via' = [via EXCEPT ![c] = l]
    /\ UNCHANGED <<connected, closed, serving, returned>>
    /\ hist' = Append(hist, Obs("dial", <<c, l>>, "served"))

Close ==
    /\ closed' = TRUE
    /\ serving' = {} /\ returned' = returned \cup serving
    /\ clients' = {}
    /\ UNCHANGED <<connected, via>>
    /\ hist' = Append(hist, Obs("close", "", "ok"))

Next == /\ Len(hist) < MaxSteps
        /\ \/ Connect \/ Close
           \/ \E l \in Listeners : Serve(l)
           \/ \E c \in Clients, l \in Listeners : Dial(c, l)
Spec == Init /\ [][Next]_vars

\* nothing is served by a proxy that is not connected, or that was closed
ServingNeedsConnected == serving # {} => connected /\ ~closed
ServingNeedsConnectedOnly == serving # {} => connected
NothingAfterClose == closed => serving = {} /\ clients = {}
\* a client is alive only through a listener that was served
ClientsCameThroughListeners == \A c \in clients : via[c] \in serving
\* a listener is in one state
OneState == serving \cap returned = {}
\* closing is final
CloseIsFinal == [][closed => closed']_vars

Export == (Len(hist) = MaxSteps) => PrintT(<<"LIFE", ToJson(hist)>>)
=============================================================================
