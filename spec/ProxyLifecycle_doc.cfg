\* the documented life cycle: after Close nothing is served
SPECIFICATION Spec
CONSTANTS
  Listeners = {"l1", "l2"}
  Clients = {"c1", "c2"}
  MaxSteps = 5
  ClosingFlagUnset = FALSE
INVARIANTS ServingNeedsConnected NothingAfterClose ClientsCameThroughListeners OneState
PROPERTY CloseIsFinal
CHECK_DEADLOCK FALSE
