\* sensitivity: with the flag never set the documented guarantee fails
SPECIFICATION Spec
CONSTANTS
  Listeners = {"l1", "l2"}
  Clients = {"c1", "c2"}
  MaxSteps = 5
  ClosingFlagUnset = TRUE
INVARIANTS NothingAfterClose
CHECK_DEADLOCK FALSE
