SPECIFICATION Spec
CONSTANTS
  Timeout = 2
  MaxSince = 4
  MaxSteps = 7
INVARIANTS OutageOnlyWhileDown NotReadyIffLongOutage Export
PROPERTY Monotone
CHECK_DEADLOCK FALSE
