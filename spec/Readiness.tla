------------------------------ MODULE Readiness ------------------------------
(* The outage clock and the readiness endpoint (proxycore/cluster.go setOutageTime /   *)
(* OutageDuration, proxy/run.go maybeAddHealthCheck) - C16: "reports a non-zero outage  *)
(* (readiness failing once it exceeds the readiness timeout) only while no control      *)
(* connection exists".                                                                  *)
(*                                                                                      *)
(* Discrete time in ticks.  `since` is the age of the outage (0 while a control          *)
(* connection exists).  The endpoint answers 200 while the outage is below the readiness  *)
(* timeout and 503 from then on; liveness is always 200.  TLC checks the obligations and  *)
(* exports every behaviour of lose / tick / regain up to the bound as the sequence of     *)
(* answers a poller must see; the driver replays it against the real binary (one tick =   *)
(* TickMs).                                                                               *)
EXTENDS Naturals, Sequences, TLC, Json
CONSTANTS Timeout,      \* readiness timeout in ticks
          MaxSince,     \* outages are observed up to this age
          MaxSteps
VARIABLES ctrl, since, hist
vars == <<ctrl, since, hist>>

Status == IF since < Timeout THEN 200 ELSE 503
Rec(a) == [a |-> a, ctrl |-> ctrl', since |-> since', readiness |-> IF since' < Timeout THEN 200 ELSE 503, liveness |-> 200]

Init == ctrl = "up" /\ since = 0 /\ hist = <<>>
Lose == ctrl = "up" /\ ctrl' = "down" /\ since' = 0 /\ hist' = Append(hist, Rec("lose"))
Tick == ctrl = "down" /\ since < MaxSince /\ since' = since + 1 /\ UNCHANGED ctrl /\ hist' = Append(hist, Rec("tick"))
Regain == ctrl = "down" /\ ctrl' = "up" /\ since' = 0 /\ hist' = Append(hist, Rec("regain"))
Next == Len(hist) < MaxSteps /\ (Lose \/ Tick \/ Regain)
Spec == Init /\ [][Next]_vars

\* a non-zero outage only while there is no control connection
OutageOnlyWhileDown == ctrl = "up" => since = 0
\* not ready exactly when the outage has reached the timeout
NotReadyIffLongOutage == (Status = 503) <=> (ctrl = "down" /\ since >= Timeout)
\* the outage never goes backwards while the connection stays lost
Monotone == [][(ctrl = "down" /\ ctrl' = "down") => since' >= since]_vars
Export == (Len(hist) = MaxSteps) => PrintT(<<"RDY", ToJson(hist)>>)
=============================================================================
