------------------------------- MODULE Request -------------------------------
(* Design-level model of the request lifecycle: goroutines, locks and channels.   *)
(*                                                                                 *)
(*   proxy/request.go       request.{Execute, executeInternal, OnResult, OnClose}  *)
(*   proxycore/clientconn.go ClientConn.{Receive, Closing, addToPending, Send}     *)
(*   proxycore/requests.go  pendingRequests                                        *)
(*   proxycore/conn.go      Conn.{read, Write, checkErr}                           *)
(*   proxycore/connpool.go  connPool.{stayConnected, leastBusyConn}                *)
(*                                                                                 *)
(* One action per critical section.  Locks are explicit: request.mu is mu[r],      *)
(* ClientConn.closingMu is cmu[b] (held for writing by Closing; addToPending's      *)
(* read-locked section is one atomic action that is enabled only while no thread   *)
(* holds the lock for writing).  Threads: the client reader `cr`, one backend       *)
(* reader br(b) per backend connection (it also runs Closing) and one pool          *)
(* maintenance thread pm(b) per slot.  One connection per host, no reconnect: the   *)
(* hazards this model is for (lock cycles between closing connections, a retry on   *)
(* a host that lost its connection) do not need more.                               *)
(*                                                                                 *)
(* Legacy switches select the behaviour of the pinned tree:                         *)
(*   ClosingHoldsLock  - Closing keeps closingMu locked while it notifies requests  *)
(*   RetrySameSticks   - executeInternal(false) never advances after a failed send  *)
EXTENDS Naturals, Sequences, FiniteSets, TLC

CONSTANTS HostSeq,        \* hosts in plan order, e.g. <<"h1","h2">>
          Reqs,           \* request ids (1..n)
          Idem,           \* set of idempotent requests
          Start,          \* Start[r] = index in HostSeq of the first host of r's query plan
          OutcomeSet,     \* backend outcome classes used
          MaxDrops,
          ClosingHoldsLock, RetrySameSticks

Hosts == {HostSeq[i] : i \in DOMAIN HostSeq}
NH == Len(HostSeq)
Plan(r) == [i \in 1..NH |-> HostSeq[((Start[r] - 1 + i - 1) % NH) + 1]]

VARIABLES rq,      \* r -> [sub, done, retry, host, qp]
          mu,      \* r -> holder of request.mu ("free" or thread)
          cn,      \* b (= host) -> [sock, closed, closing, pend, slot]
          cmu,     \* b -> holder of closingMu for writing ("free" or thread)
          wire,    \* b -> set of requests written to the socket, not yet taken
          bk,      \* b -> set of requests taken by the backend, unanswered
          resp,    \* b -> set of <<r, outcome>> in flight to the proxy
          th,      \* thread -> [pc, r, next, b, o, ret, cl]
          cin,     \* requests the client has not sent yet
          drops,
          replies  \* r -> sequence of reply kinds (history)

vars == <<rq, mu, cn, cmu, wire, bk, resp, th, cin, drops, replies>>

BR(b) == "br_" \o b
PM(b) == "pm_" \o b
Threads == {"cr"} \cup {BR(b) : b \in Hosts} \cup {PM(b) : b \in Hosts}
NIL == "nil"

Decide(o, idem, retry) ==
    CASE o = "rt_same"     -> IF retry = 0 THEN "same" ELSE "ret"
      [] o = "wt_batchlog" -> IF idem /\ retry = 0 THEN "same" ELSE "ret"
      [] o = "unavail"     -> IF retry = 0 THEN "next" ELSE "ret"
      [] o = "boot"        -> "next"
      [] o = "srverr"      -> IF idem THEN "next" ELSE "ret"
      [] OTHER             -> "ret"

Init ==
    /\ rq = [r \in Reqs |-> [sub |-> FALSE, done |-> FALSE, retry |-> 0, host |-> NIL, qp |-> Plan(r)]]
    /\ mu = [r \in Reqs |-> "free"]
    /\ cn = [b \in Hosts |-> [sock |-> "up", closed |-> FALSE, closing |-> FALSE, pend |-> {}, slot |-> TRUE]]
    /\ cmu = [b \in Hosts |-> "free"]
    /\ wire = [b \in Hosts |-> {}] /\ bk = [b \in Hosts |-> {}] /\ resp = [b \in Hosts |-> {}]
    /\ th = [t \in Threads |-> [pc |-> IF t = "cr" THEN "idle" ELSE IF t \in {PM(b) : b \in Hosts} THEN "watch" ELSE "idle",
                                r |-> 0, next |-> FALSE, b |-> NIL, o |-> NIL, ret |-> NIL, cl |-> {}]]
    /\ cin = Reqs /\ drops = 0
    /\ replies = [r \in Reqs |-> <<>>]

Reply(r, kind) == replies' = [replies EXCEPT ![r] = Append(@, kind)]

-----------------------------------------------------------------------------
(* client reader: client.Receive -> client.execute -> request.Execute(true)        *)
CRRecv ==
    /\ th["cr"].pc = "idle" /\ cin # {}
    /\ \E r \in cin :
         /\ cin' = cin \ {r}
         /\ rq' = [rq EXCEPT ![r].sub = TRUE]
         /\ th' = [th EXCEPT !["cr"] = [@ EXCEPT !.pc = "lock", !.r = r, !.next = TRUE, !.ret = "idle"]]
    /\ UNCHANGED <<mu, cn, cmu, wire, bk, resp, drops, replies>>

(* request.mu.Lock() - shared by Execute, OnResult, OnClose                         *)
Lock(t) ==
    /\ th[t].pc \in {"lock", "res_lock", "oc_lock"}
    /\ mu[th[t].r] = "free"
    /\ mu' = [mu EXCEPT ![th[t].r] = t]
    /\ th' = [th EXCEPT ![t].pc = CASE th[t].pc = "lock" -> "xpick" [] th[t].pc = "res_lock" -> "res_do" [] OTHER -> "oc_do"]
    /\ UNCHANGED <<rq, cn, cmu, wire, bk, resp, cin, drops, replies>>

(* executeInternal loop head: `for !r.done { if next { host = qp.Next() } ...`      *)
(* followed by Session.Send -> leastBusyConn (reads the pool slot)                  *)
XPick(t) ==
    LET r == th[t].r
        q == rq[r]
    IN
    /\ th[t].pc = "xpick"
    /\ IF q.done THEN
            /\ th' = [th EXCEPT ![t].pc = "xexit"] /\ UNCHANGED <<rq, replies>>
       ELSE
         LET host == IF th[t].next THEN (IF q.qp = <<>> THEN NIL ELSE Head(q.qp)) ELSE q.host
             qp2 == IF th[t].next /\ q.qp # <<>> THEN Tail(q.qp) ELSE q.qp
         IN
         IF host = NIL THEN   \* plan exhausted: reply "no more hosts"
            /\ rq' = [rq EXCEPT ![r] = [q EXCEPT !.done = TRUE, !.host = NIL, !.qp = qp2]]
            /\ Reply(r, "nohosts")
            /\ th' = [th EXCEPT ![t].pc = "xexit"]
         ELSE IF ~cn[host].slot THEN   \* NoConnForHost: loop again
            /\ rq' = [rq EXCEPT ![r] = [q EXCEPT !.host = host, !.qp = qp2]]
            /\ th' = [th EXCEPT ![t].next = IF RetrySameSticks THEN th[t].next ELSE TRUE]
            /\ UNCHANGED replies
         ELSE
            /\ rq' = [rq EXCEPT ![r] = [q EXCEPT !.host = host, !.qp = qp2]]
            /\ th' = [th EXCEPT ![t] = [@ EXCEPT !.pc = "xadd", !.b = host]]
            /\ UNCHANGED replies
    /\ UNCHANGED <<mu, cn, cmu, wire, bk, resp, cin, drops>>

(* ClientConn.addToPending under closingMu.RLock: atomic, excluded by a writer      *)
XAdd(t) ==
    LET b == th[t].b IN
    /\ th[t].pc = "xadd"
    /\ cmu[b] = "free"
    /\ IF cn[b].closing THEN
            /\ th' = [th EXCEPT ![t] = [@ EXCEPT !.pc = "xpick", !.next = IF RetrySameSticks THEN @ ELSE TRUE]]
            /\ UNCHANGED cn
       ELSE /\ cn' = [cn EXCEPT ![b].pend = @ \cup {th[t].r}]
            /\ th' = [th EXCEPT ![t].pc = "xwrite"]
    /\ UNCHANGED <<rq, mu, cmu, wire, bk, resp, cin, drops, replies>>

(* Conn.Write: select { case messages <- sender: ; case <-closed: err }             *)
XWrite(t) ==
    LET b == th[t].b IN
    /\ th[t].pc = "xwrite"
    /\ \/ /\ wire' = [wire EXCEPT ![b] = @ \cup {th[t].r}]     \* enqueued (possibly into a dead socket)
          /\ th' = [th EXCEPT ![t].pc = "xexit"]
       \/ /\ cn[b].closed                                       \* write refused: the pending entry stays
          /\ th' = [th EXCEPT ![t] = [@ EXCEPT !.pc = "xpick", !.next = IF RetrySameSticks THEN @ ELSE TRUE]]
          /\ UNCHANGED wire
    /\ UNCHANGED <<rq, mu, cn, cmu, bk, resp, cin, drops, replies>>

(* request.mu.Unlock() and return to the caller                                     *)
XExit(t) ==
    /\ th[t].pc = "xexit"
    /\ mu' = [mu EXCEPT ![th[t].r] = "free"]
    /\ th' = [th EXCEPT ![t].pc = th[t].ret]
    /\ UNCHANGED <<rq, cn, cmu, wire, bk, resp, cin, drops, replies>>

-----------------------------------------------------------------------------
(* backend reader: ClientConn.Receive                                               *)
BRRecv(b) ==
    LET t == BR(b) IN
    /\ th[t].pc = "idle" /\ ~cn[b].closed
    /\ \E m \in resp[b] :
         /\ resp' = [resp EXCEPT ![b] = @ \ {m}]
         /\ IF m[1] \in cn[b].pend
            THEN /\ cn' = [cn EXCEPT ![b].pend = @ \ {m[1]}]
                 /\ th' = [th EXCEPT ![t] = [@ EXCEPT !.pc = "res_lock", !.r = m[1], !.o = m[2], !.ret = "idle"]]
            ELSE \* unknown stream: connection error
                 /\ cn' = [cn EXCEPT ![b].closed = TRUE]
                 /\ th' = [th EXCEPT ![t].pc = "cl_lock"]
    /\ UNCHANGED <<rq, mu, cmu, wire, bk, cin, drops, replies>>

(* the read fails (socket dropped): checkErr closes the `closed` channel, then Closing *)
BRDead(b) ==
    LET t == BR(b) IN
    /\ th[t].pc = "idle" /\ cn[b].sock = "dropped"
    /\ cn' = [cn EXCEPT ![b].closed = TRUE]   \* no-op if the writer already closed it
    /\ th' = [th EXCEPT ![t].pc = "cl_lock"]
    /\ UNCHANGED <<rq, mu, cmu, wire, bk, resp, cin, drops, replies>>

(* request.OnResult after the lock: done check, retry decision                      *)
BRResult(t) ==
    LET r == th[t].r
        q == rq[r]
        d == Decide(th[t].o, r \in Idem, q.retry)
    IN
    /\ th[t].pc = "res_do"
    /\ IF q.done THEN th' = [th EXCEPT ![t].pc = "xexit"] /\ UNCHANGED <<rq, replies>>
       ELSE IF d = "ret" THEN
            /\ rq' = [rq EXCEPT ![r].done = TRUE]
            /\ Reply(r, th[t].o)
            /\ th' = [th EXCEPT ![t].pc = "xexit"]
       ELSE /\ rq' = [rq EXCEPT ![r].retry = @ + 1]
            /\ th' = [th EXCEPT ![t] = [@ EXCEPT !.pc = "xpick", !.next = (d = "next")]]
            /\ UNCHANGED replies
    /\ UNCHANGED <<mu, cn, cmu, wire, bk, resp, cin, drops>>

(* ClientConn.Closing: closingMu.Lock(); closing = true; pending.closing(err); Unlock() *)
CLLock(b) ==
    LET t == BR(b) IN
    /\ th[t].pc = "cl_lock" /\ cmu[b] = "free"
    /\ cmu' = [cmu EXCEPT ![b] = IF ClosingHoldsLock THEN t ELSE "free"]
    /\ cn' = [cn EXCEPT ![b].closing = TRUE]
    /\ th' = [th EXCEPT ![t] = [@ EXCEPT !.pc = "cl_iter", !.cl = cn[b].pend]]
    /\ UNCHANGED <<rq, mu, wire, bk, resp, cin, drops, replies>>

CLIter(b) ==
    LET t == BR(b) IN
    /\ th[t].pc = "cl_iter"
    /\ IF th[t].cl = {} THEN
            /\ cmu' = [cmu EXCEPT ![b] = "free"]
            /\ th' = [th EXCEPT ![t].pc = "dead"]
       ELSE \E r \in th[t].cl :
            /\ th' = [th EXCEPT ![t] = [@ EXCEPT !.pc = "oc_lock", !.r = r, !.cl = @ \ {r}, !.ret = "cl_iter"]]
            /\ UNCHANGED cmu
    /\ UNCHANGED <<rq, mu, cn, wire, bk, resp, cin, drops, replies>>

(* request.OnClose after the lock                                                   *)
OnClose(t) ==
    LET r == th[t].r IN
    /\ th[t].pc = "oc_do"
    /\ IF r \in Idem THEN
            /\ th' = [th EXCEPT ![t] = [@ EXCEPT !.pc = "xpick", !.next = TRUE]]
            /\ UNCHANGED <<rq, replies>>
       ELSE IF ~rq[r].done THEN
            /\ rq' = [rq EXCEPT ![r].done = TRUE]
            /\ Reply(r, "connclosed")
            /\ th' = [th EXCEPT ![t].pc = "xexit"]
       ELSE th' = [th EXCEPT ![t].pc = "xexit"] /\ UNCHANGED <<rq, replies>>
    /\ UNCHANGED <<mu, cn, cmu, wire, bk, resp, cin, drops>>

(* the writer goroutine fails to write into a dropped socket (a heartbeat, a queued    *)
(* request): Conn.checkErr closes the `closed` channel although the reader is busy      *)
WriterErr(b) ==
    /\ cn[b].sock = "dropped" /\ ~cn[b].closed
    /\ cn' = [cn EXCEPT ![b].closed = TRUE]
    /\ UNCHANGED <<rq, mu, cmu, wire, bk, resp, th, cin, drops, replies>>

(* pool maintenance: <-conn.IsClosed(): slot := nil                                  *)
PMClear(b) ==
    LET t == PM(b) IN
    /\ th[t].pc = "watch" /\ cn[b].closed
    /\ cn' = [cn EXCEPT ![b].slot = FALSE]
    /\ th' = [th EXCEPT ![t].pc = "gone"]
    /\ UNCHANGED <<rq, mu, cmu, wire, bk, resp, cin, drops, replies>>

-----------------------------------------------------------------------------
(* environment *)
BTake(b) ==
    /\ cn[b].sock = "up"
    /\ \E r \in wire[b] : /\ wire' = [wire EXCEPT ![b] = @ \ {r}]
                          /\ bk' = [bk EXCEPT ![b] = @ \cup {r}]
    /\ UNCHANGED <<rq, mu, cn, cmu, resp, th, cin, drops, replies>>

BAnswer(b) ==
    /\ cn[b].sock = "up"
    /\ \E r \in bk[b] : \E o \in OutcomeSet :
         /\ bk' = [bk EXCEPT ![b] = @ \ {r}]
         /\ resp' = [resp EXCEPT ![b] = @ \cup {<<r, o>>}]
    /\ UNCHANGED <<rq, mu, cn, cmu, wire, th, cin, drops, replies>>

Drop(b) ==
    /\ cn[b].sock = "up" /\ drops < MaxDrops
    /\ cn' = [cn EXCEPT ![b].sock = "dropped"]
    /\ bk' = [bk EXCEPT ![b] = {}]           \* unanswered attempts on it are lost
    /\ drops' = drops + 1
    /\ UNCHANGED <<rq, mu, cmu, wire, resp, th, cin, replies>>

ThreadStep(t) == Lock(t) \/ XPick(t) \/ XAdd(t) \/ XWrite(t) \/ XExit(t) \/ BRResult(t) \/ OnClose(t)
ProxyNext == CRRecv \/ (\E t \in Threads : ThreadStep(t))
             \/ (\E b \in Hosts : BRRecv(b) \/ BRDead(b) \/ CLLock(b) \/ CLIter(b) \/ PMClear(b) \/ WriterErr(b))
EnvNext == \E b \in Hosts : BTake(b) \/ BAnswer(b) \/ Drop(b)

AllAnswered == \A r \in Reqs : replies[r] # <<>>
\* explicit termination: only when every request has been answered is doing nothing acceptable
Terminated == AllAnswered /\ UNCHANGED vars

Next == ProxyNext \/ EnvNext \/ Terminated
Spec == Init /\ [][Next]_vars
Fair == /\ \A t \in Threads : WF_vars(ThreadStep(t))
        /\ WF_vars(CRRecv)
        /\ \A b \in Hosts : WF_vars(BRRecv(b)) /\ WF_vars(BRDead(b)) /\ WF_vars(CLLock(b)) /\ WF_vars(CLIter(b))
                            /\ WF_vars(PMClear(b)) /\ WF_vars(BTake(b)) /\ WF_vars(BAnswer(b)) /\ WF_vars(WriterErr(b))
FairSpec == Spec /\ Fair

-----------------------------------------------------------------------------
\* C01: never two replies
AtMostOneReply == \A r \in Reqs : Len(replies[r]) <= 1
\* lock sanity
MutexOK == \A r \in Reqs : mu[r] = "free" \/ (th[mu[r]].r = r /\ th[mu[r]].pc \in {"xpick", "xadd", "xwrite", "xexit", "res_do", "oc_do"})
\* C01: never none - no deadlock (TLC's deadlock check: a state without successor must satisfy AllAnswered)
\* C01: never none - every request is eventually answered (catches livelock)
EventuallyAnswered == <>AllAnswered
\* C04 at the design level: a non-idempotent request reaches a backend at most once unless the outcome was safe
view == <<rq, mu, cn, cmu, wire, bk, resp, th, cin, drops, [r \in Reqs |-> Len(replies[r])]>>
=============================================================================
