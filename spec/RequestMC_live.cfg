SPECIFICATION FairSpec
CONSTANTS
  HostSeq <- MCHosts2
  Start <- MCStart
  Reqs = {1, 2}
  Idem = {1}
  OutcomeSet = {"ok", "rt_same", "srverr"}
  MaxDrops = 1
  ClosingHoldsLock = @HOLDS@
  RetrySameSticks = @STICKS@
PROPERTIES EventuallyAnswered
CHECK_DEADLOCK TRUE
