SPECIFICATION Spec
CONSTANTS
  HostSeq <- MCHosts2
  Start <- MCStart
  Reqs = {1, 2}
  Idem = {1, 2}
  OutcomeSet = {"ok"}
  MaxDrops = 2
  ClosingHoldsLock = TRUE
  RetrySameSticks = FALSE
VIEW view
INVARIANTS AtMostOneReply MutexOK
CHECK_DEADLOCK TRUE
