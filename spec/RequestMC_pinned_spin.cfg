SPECIFICATION FairSpec
CONSTANTS
  HostSeq <- MCHosts2
  Start <- MCStart
  Reqs = {1}
  Idem = {1}
  OutcomeSet = {"ok", "rt_same"}
  MaxDrops = 1
  ClosingHoldsLock = FALSE
  RetrySameSticks = TRUE
PROPERTIES EventuallyAnswered
CHECK_DEADLOCK TRUE
