SPECIFICATION Spec
CONSTANTS
  HostSeq <- MCHosts2
  Start <- MCStart
  Reqs = {1, 2}
  Idem = {1}
  OutcomeSet = {"ok", "rt_same", "srverr"}
  MaxDrops = 2
  ClosingHoldsLock = @HOLDS@
  RetrySameSticks = @STICKS@
VIEW view
INVARIANTS AtMostOneReply MutexOK
CHECK_DEADLOCK TRUE
