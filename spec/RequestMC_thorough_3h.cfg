SPECIFICATION Spec
CONSTANTS
  HostSeq <- MCHosts3
  Start <- MCStart
  Reqs = {1, 2}
  Idem = {1, 2}
  OutcomeSet = {"ok", "srverr"}
  MaxDrops = 2
  ClosingHoldsLock = @HOLDS@
  RetrySameSticks = @STICKS@
VIEW view
INVARIANTS AtMostOneReply MutexOK
CHECK_DEADLOCK TRUE
