SPECIFICATION Spec
CONSTANTS
  HostSeq <- MCHosts2
  Start <- MCStart
  Reqs = {1, 2, 3}
  Idem = {1, 3}
  OutcomeSet = {"ok", "rt_same"}
  MaxDrops = 1
  ClosingHoldsLock = @HOLDS@
  RetrySameSticks = @STICKS@
VIEW view
INVARIANTS AtMostOneReply MutexOK
CHECK_DEADLOCK TRUE
