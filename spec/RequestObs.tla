------------------------------ MODULE RequestObs ------------------------------
(* Observable behaviour of the request lifecycle of cql-proxy                      *)
(* (proxy/request.go, proxy/retrypolicy.go, proxycore/clientconn.go,               *)
(*  proxycore/requests.go, proxycore/session.go, proxycore/connpool.go).           *)
(*                                                                                 *)
(* The state is what clients and backends can see of a forwarded request, plus     *)
(* what the harness knows about backend connections:                               *)
(*   - a client submits request r on (client, stream);                             *)
(*   - backend node h TAKES an attempt of r on backend connection b / stream bs;   *)
(*   - the backend ANSWERS an attempt with an outcome class, or DROPS connection b;*)
(*   - the client receives a REPLY.                                                *)
(* Between these events the proxy takes decisions (retry same / retry next /       *)
(* return / re-prepare) that the documented default policy prescribes.  The        *)
(* variable `must` of a request is the set of moves the proxy is allowed to make   *)
(* next for it; every observable proxy move is checked against it.  Hook events    *)
(* (SendFail) can only *justify* additional behaviour (skipping a host that has no *)
(* usable connection), never replace an observation.                               *)
(*                                                                                 *)
(* The actions are total: an illegal event is consumed and recorded in `bad` with  *)
(* the property it violates, so that the same actions serve (a) exhaustive model   *)
(* checking, where the proxy only takes legal moves and TLC checks the properties  *)
(* C01 C02 C04 C05 C08 on all outcome sequences, and (b) validation of traces      *)
(* recorded from the real proxy (TraceRequestObs.tla).                             *)
EXTENDS Naturals, Sequences, FiniteSets, TLC

CONSTANTS HostOrder,     \* sequence of host names in plan order (sorted by key)
          NumConns,      \* connections per host
          StreamLimit,   \* stream ids per backend connection (2048 in the code)
          ReprepareFailForwards,   \* TRUE: a failed re-prepare send forwards UNPREPARED (pinned tree, D11)
          RetrySameSpins           \* TRUE: retry-same onto a host without connection never moves on (pinned tree, D7)

VARIABLES rq,     \* request id -> record
          conn,   \* backend connection id -> [h, alive, fresh]
          out,    \* outstanding attempts: set of [r, b, bs, op]
          bad     \* sequence of violation records

ovars == <<rq, conn, out, bad>>

Hosts == {HostOrder[i] : i \in DOMAIN HostOrder}
NONE == "none"
Range(s) == {s[i] : i \in DOMAIN s}
HostIdx(h) == CHOOSE i \in DOMAIN HostOrder : HostOrder[i] = h
Succ(h) == HostOrder[(HostIdx(h) % Len(HostOrder)) + 1]

-----------------------------------------------------------------------------
(* The documented default retry policy (property C05), as a decision table.        *)
(* Outcome classes: ok, rt_same (read timeout, received >= blockFor, no data),     *)
(* rt_other, wt_batchlog, wt_other, unavail, boot, srverr (server error /          *)
(* overloaded / truncate), failure (read/write failure), unprepared, other.        *)
Outcomes == {"ok", "rt_same", "rt_other", "wt_batchlog", "wt_other", "unavail", "boot",
             "srverr", "overloaded", "truncate", "rfail", "wfail", "unprepared", "other",
             "invalid", "syntax", "funcfail"}

Decide(o, idem, retry) ==
    CASE o = "rt_same"      -> IF retry = 0 THEN "same" ELSE "ret"
      [] o = "wt_batchlog"  -> IF idem /\ retry = 0 THEN "same" ELSE "ret"
      [] o = "unavail"      -> IF retry = 0 THEN "next" ELSE "ret"
      [] o = "boot"         -> "next"
      [] o \in {"srverr", "overloaded", "truncate"} -> IF idem THEN "next" ELSE "ret"
      [] OTHER              -> "ret"

\* outcomes after which the previous attempt is guaranteed not to have been applied (C04)
SafeToResend == {"unavail", "boot", "rt_same", "rt_other", "unprepared"}

\* reply kind the client sees when outcome o is returned
ReplyKind(o) == CASE o = "rt_same" -> "rt" [] o = "rt_other" -> "rt"
                  [] o = "wt_batchlog" -> "wt" [] o = "wt_other" -> "wt"
                  [] OTHER -> o

-----------------------------------------------------------------------------
Violation(p, what, r) == [p |-> p, what |-> what, r |-> r]
Flag(ok, p, what, r) == IF ok THEN bad ELSE (IF Len(bad) < 400 THEN Append(bad, Violation(p, what, r)) ELSE bad)

\* connections belong to a session (protocol version / compression / keyspace); a request only uses its session's pools
AliveGood(h, ss) == {b \in DOMAIN conn : conn[b].h = h /\ conn[b].sess = ss /\ conn[b].alive /\ ~conn[b].fresh}
\* a host is shaky (for a session) when not every pool slot is known to hold a usable connection
Shaky(h, ss) == Cardinality(AliveGood(h, ss)) < NumConns
Outstanding(b) == {x \in out : x.b = b}
\* A send-failure hook is logged after the proxy looked for a connection, not atomically with it: the look happened at
\* some moment since the previous logged event of the request.  q.shaky collects the hosts that were shaky at that
\* event or have become shaky since.
HostsOf(ss) == {conn[b].h : b \in {x \in DOMAIN conn : conn[x].sess = ss}}
ShakyNow(ss) == {h \in HostsOf(ss) : Shaky(h, ss)}
WasShaky(q, h) == Shaky(h, q.sess) \/ h \in q.shaky \/ h \notin HostsOf(q.sess)
\* "no connection for the host" (every slot of its pool empty) is a stronger statement than a failed write: it is only
\* justified when NONE of the host's connections was known to be usable at some moment since the request's previous event
Down(h, ss) == AliveGood(h, ss) = {}
DownNow(ss) == {h \in HostsOf(ss) : Down(h, ss)}
WasDown(q, h) == Down(h, q.sess) \/ h \in q.down \/ h \notin HostsOf(q.sess)

NewReq(c, s, idem, op, cached, tok, ss) ==
    [c |-> c, s |-> s, idem |-> idem, op |-> op, cached |-> cached, tok |-> tok, sess |-> ss,
     ph |-> "exec",            \* exec: the proxy owes a move; wait: an attempt is outstanding; done
     must |-> IF op = "LOCAL" THEN {"reply_ok"} ELSE {"next"},   \* allowed moves: next, same, prep, reply_<kind>
                               \* (op LOCAL: a request the proxy answers itself - its only move is the answer)
     retry |-> 0,
     rlo |-> 0,                \* lower bound of the retry count: below `retry` only when a counted answer may have
     prlo |-> 0,               \* been lost with its connection before the proxy read it (maylost; prlo is the lower
     shaky |-> {},             \* hosts that were shaky at some moment since the request's previous logged event
     down |-> {},              \* hosts without any usable connection at some moment since then
     maylost |-> FALSE,        \* bound before that answer, which is the effective one while maylost)
     tried |-> <<>>,           \* hosts consumed from the query plan, in order
     cur |-> NONE,             \* host of the current attempt
     ab |-> 0,                 \* backend connection of the current attempt
     mode |-> "req",           \* req | prep (a re-prepare is outstanding)
     ans |-> NONE,             \* last answered outcome that the proxy has not visibly reacted to
     nrep |-> 0,               \* replies delivered to the client
     natt |-> 0,               \* backend executions of the request itself
     unsafe |-> FALSE,         \* some attempt may have been applied (C04)
     stale |-> 0,              \* sends that failed after registration (entries left in a pending map)
     fork |-> FALSE,           \* such an entry exists: the closing connection may re-execute the request
                               \* concurrently with its normal path; policy conformance (C05) is then not
                               \* checked for this request, C01 C02 C04 still are
     closed |-> FALSE,         \* client connection closed
     lastkind |-> NONE,        \* kind of the (first) reply
     pans |-> NONE,            \* the answer a backend gave to the last re-PREPARE made for this request
     attlog |-> <<>>]          \* history: <<host, outcome>> of every attempt (hidden by VIEW)

-----------------------------------------------------------------------------
(* Environment: client submits a request.                                          *)
DoSubmit(r, c, s, idem, op, cached, tok, ss) ==
    /\ rq' = (r :> [NewReq(c, s, idem, op, cached, tok, ss) EXCEPT !.shaky = ShakyNow(ss), !.down = DownNow(ss)]) @@ rq
    /\ bad' = Flag(r \notin DOMAIN rq, "HARNESS", "request id reused", r)
    /\ UNCHANGED <<conn, out>>

(* Harness knowledge: a backend connection finished its handshake.                 *)
DoConn(b, h, initial, ss) ==
    /\ conn' = (b :> [h |-> h, alive |-> TRUE, fresh |-> ~initial, sess |-> ss]) @@ conn
    /\ UNCHANGED <<rq, out, bad>>

(* Proxy move: backend h takes an attempt of r on connection b.                    *)
TakeIsNext(q, h) ==
    /\ "next" \in q.must
    /\ h \notin Range(q.tried)
    /\ (q.tried # <<>> => h = Succ(q.tried[Len(q.tried)]))
TakeIsSame(q, h) == "same" \in q.must /\ h = q.cur
TakeIsPrep(q, b)  == "prep" \in q.must /\ b = q.ab
\* an entry left behind in a closed connection's pending map re-executes an idempotent request
TakeIsGhost(q, h) == q.stale > 0 /\ q.idem /\ q.nrep = 0 /\ h \notin Range(q.tried)

DoTake(r, h, b, bs, op) ==
    LET q == rq[r]
        known == r \in DOMAIN rq /\ b \in DOMAIN conn
    IN
    IF ~known THEN
        /\ bad' = Flag(FALSE, "HARNESS", "take for unknown request or connection", r)
        /\ UNCHANGED <<rq, conn, out>>
    ELSE
    LET isprep == op = "PREPARE" /\ q.op # "PREPARE"
        \* (a request answered "connection closed" by a late close notification while its sending path, after a
        \* refused write, had already written it to the next host is taken by that host after the answer)
        legalReq == ~isprep /\ ((q.ph = "exec" /\ (TakeIsNext(q, h) \/ TakeIsSame(q, h)))
                                \/ (q.ph = "done" /\ q.fork /\ q.lastkind = "connclosed" /\ (TakeIsNext(q, h) \/ TakeIsSame(q, h))))
        legalPrep == isprep /\ q.ph = "exec" /\ TakeIsPrep(q, b)
        ghost == ~isprep /\ ~legalReq /\ TakeIsGhost(q, h)
        \* a stale pending entry re-executes the request on a second path; that path may still be sending
        \* (a re-prepare, a re-execution) when the first path has already answered the client
        forked == q.fork /\ (q.idem \/ isprep)
        legal == legalReq \/ legalPrep \/ ghost \/ forked
        reexec == ~isprep /\ q.natt > 0
        \* C04: a request not positively idempotent is re-sent only after safe outcomes
        c04ok == ~(reexec /\ ~q.idem /\ q.unsafe)
        \* C08: after a successful re-prepare the request is re-executed on that host
        afterPrep == q.mode = "prep" /\ "same" \in q.must /\ q.ph = "exec"
        why == IF q.op = "LOCAL" THEN "C09" ELSE IF ~c04ok THEN "C04" ELSE IF afterPrep THEN "C08" ELSE "C05"
        \* C02: the stream id that reaches the backend must not be one that is still in use on that connection
        streamFree == ~(\E x \in out : x.b = b /\ x.bs = bs)
    IN
    /\ rq' = [rq EXCEPT ![r] =
                [q EXCEPT !.ph = IF q.ph = "done" THEN "done" ELSE "wait",
                          \* (a forked request keeps the answer its other path may still deliver)
                          !.must = IF q.fork THEN q.must \ {"next", "same", "prep"} ELSE {},
                          !.cur = IF isprep THEN q.cur ELSE h,
                          !.ab = b,
                          !.shaky = ShakyNow(q.sess), !.down = DownNow(q.sess),
                          !.mode = IF isprep THEN "prep" ELSE "req",
                          !.pans = IF isprep THEN "none" ELSE q.pans,
                          !.ans = NONE,
                          \* a retry on the same host shows that the answer was read, not lost
                          !.maylost = q.maylost /\ ~(~isprep /\ TakeIsSame(q, h) /\ ~TakeIsNext(q, h)),
                          !.stale = IF ghost THEN q.stale - 1 ELSE q.stale,
                          !.tried = IF (legalReq /\ TakeIsNext(q, h) /\ ~TakeIsSame(q, h)) \/ ghost
                                       \/ (~legal /\ ~isprep /\ h \notin Range(q.tried))
                                    THEN Append(q.tried, h) ELSE q.tried,
                          !.natt = IF isprep THEN q.natt ELSE q.natt + 1]]
    /\ conn' = [conn EXCEPT ![b].fresh = FALSE]
    /\ out' = out \cup {[r |-> r, b |-> b, bs |-> bs, op |-> IF isprep THEN "prep" ELSE "req"]}
    /\ bad' = Flag(legal /\ c04ok /\ streamFree /\ conn[b].alive /\ conn[b].h = h /\ conn[b].sess = q.sess,
                   IF ~(conn[b].alive /\ conn[b].h = h) THEN "HARNESS" ELSE IF conn[b].sess # q.sess THEN "C07"
                   ELSE IF ~streamFree THEN "C02" ELSE why,
                   IF conn[b].sess # q.sess THEN "request forwarded on a connection of another session (version/compression/keyspace)"
                   ELSE IF ~streamFree THEN "request written to the backend under a stream id that is still in use on that connection"
                   ELSE IF q.op = "LOCAL" THEN "a read of the virtual system tables was sent to a backend"
                   ELSE IF ~c04ok THEN "non-idempotent request re-sent after an outcome that may have applied it"
                   ELSE IF q.nrep > 0 THEN "request sent to a backend after the client was answered (not prescribed by the retry policy)"
                   ELSE IF isprep THEN "unexpected re-prepare"
                   ELSE IF afterPrep THEN "request not re-executed on the host that was just re-prepared for it"
                   ELSE "attempt not prescribed by the retry policy (host/order/retry)", r)

(* Environment: the backend answers the attempt (r, b, bs) with outcome o.         *)
DoAnswer(r, b, bs, o) ==
    LET q == rq[r]
        xs == {x \in out : x.r = r /\ x.b = b /\ x.bs = bs}
    IN
    IF xs = {} \/ r \notin DOMAIN rq THEN
        /\ bad' = Flag(FALSE, "HARNESS", "answer without outstanding attempt", r)
        /\ UNCHANGED <<rq, conn, out>>
    ELSE
    LET x == CHOOSE y \in xs : TRUE
        current == q.ph = "wait" /\ q.ab = b /\ q.mode = x.op
        d == Decide(o, q.idem, q.retry)
        lo == IF q.maylost THEN q.prlo ELSE q.rlo
        dlo == Decide(o, q.idem, lo)
        MoveOf(dd) == IF dd = "same" THEN {"same"} ELSE IF dd = "next" THEN {"next"} ELSE {"reply_" \o ReplyKind(o)}
        newmust ==
            IF x.op = "prep" THEN (IF o = "ok" THEN {"same"} ELSE {"next"})
            ELSE IF o = "unprepared" /\ q.cached /\ q.op # "PREPARE" THEN {"prep"}
            ELSE MoveOf(d) \cup MoveOf(dlo)
        counts == x.op = "req" /\ ~(o = "unprepared" /\ q.cached)
        newretry == IF counts /\ d \in {"same", "next"} THEN q.retry + 1 ELSE q.retry
        newrlo == IF counts /\ dlo \in {"same", "next"} THEN lo + 1 ELSE lo
    IN
    /\ out' = out \ {x}
    /\ rq' = [rq EXCEPT ![r] =
                IF current THEN
                    [q EXCEPT !.shaky = ShakyNow(q.sess), !.down = DownNow(q.sess), !.ph = "exec", !.must = IF q.fork THEN q.must \cup newmust \cup {"reply_" \o ReplyKind(o)} ELSE newmust,
                              !.retry = newretry, !.rlo = newrlo, !.prlo = lo, !.maylost = FALSE, !.ans = o,
                              !.pans = IF x.op = "prep" THEN o ELSE q.pans,
                              !.unsafe = IF x.op = "req" THEN (q.unsafe \/ o \notin SafeToResend) ELSE q.unsafe,
                              !.attlog = IF x.op = "req" THEN Append(q.attlog, <<q.cur, o>>) ELSE q.attlog]
                ELSE \* answer to a superseded (ghost) attempt: first result wins, the other is dropped
                    [q EXCEPT !.unsafe = IF x.op = "req" THEN (q.unsafe \/ o \notin SafeToResend) ELSE q.unsafe,
                              !.ph = IF q.ph = "wait" THEN "exec" ELSE q.ph,
                              !.must = IF q.nrep = 0 /\ q.ph # "done"
                                       THEN q.must \cup newmust \cup {"reply_" \o ReplyKind(o)} ELSE q.must]]
    /\ UNCHANGED <<conn, bad>>

(* Environment: backend connection b is dropped.  Unanswered attempts on it are    *)
(* lost; an answer the proxy has not visibly reacted to may have been lost too.    *)
OnCloseMoves(q) == IF q.idem THEN {"next"} ELSE {"reply_connclosed"}

DoDrop(b) ==
    LET lost == Outstanding(b)
        known == b \in DOMAIN conn
    IN
    /\ conn' = IF known THEN [conn EXCEPT ![b].alive = FALSE] ELSE conn
    /\ out' = out \ lost
    /\ rq' = [r \in DOMAIN rq |->
                \* the host of the dropped connection is shaky from now on: every request of its session may meet that
                LET q == IF known /\ rq[r].sess = conn[b].sess THEN [rq[r] EXCEPT !.shaky = @ \cup {conn[b].h},
                                                                                          !.down = IF AliveGood(conn[b].h, conn[b].sess) \ {b} = {} THEN @ \cup {conn[b].h} ELSE @] ELSE rq[r] IN
                IF q.ph = "wait" /\ q.ab = b /\ (\E x \in lost : x.r = r)
                THEN [q EXCEPT !.ph = "exec",
                               !.must = IF q.fork THEN (q.must \ {"next", "same", "prep"}) \cup OnCloseMoves(q) ELSE OnCloseMoves(q),
                               !.ans = NONE,
                               !.unsafe = IF q.mode = "req" THEN TRUE ELSE q.unsafe,
                               !.attlog = IF q.mode = "req" THEN Append(q.attlog, <<q.cur, "lost">>) ELSE q.attlog]
                ELSE IF q.ph = "exec" /\ q.ab = b /\ q.ans # NONE
                THEN \* answered, not yet visibly processed: the answer may have been lost with the connection
                     [q EXCEPT !.maylost = TRUE,
                               !.must = q.must \cup OnCloseMoves(q)
                                        \cup (IF "prep" \in q.must /\ ReprepareFailForwards THEN {"reply_unprepared"} ELSE {})
                                        \cup (IF "prep" \in q.must /\ ~ReprepareFailForwards THEN {"next"} ELSE {})]
                ELSE q]
    /\ UNCHANGED bad

(* Hook justification: a send of r to host h failed inside the proxy.              *)
DoSendFail(r, h, why) ==
    LET q == rq[r] IN
    IF r \notin DOMAIN rq THEN
        /\ bad' = Flag(FALSE, "HARNESS", "sendfail for unknown request", r) /\ UNCHANGED <<rq, conn, out>>
    ELSE
    \* stream exhaustion: a connection has run out of stream ids only if about StreamLimit requests hold one.  The backend
    \* has not necessarily read them yet (they may still be on the wire), so the evidence is counted at the client side:
    \* requests of the session submitted and not yet answered (each holds at most one id per connection at a time; the
    \* proxy's own heartbeats and re-prepares hold a few more)
    LET justified == IF why = "streams" THEN Cardinality({x \in DOMAIN rq : rq[x].nrep = 0 /\ rq[x].sess = q.sess}) + 16 >= StreamLimit
                     ELSE IF why = "noconn" THEN WasDown(q, h)
                     ELSE WasShaky(q, h)
        asNext == q.ph = "exec" /\ TakeIsNext(q, h)
        asSame == q.ph = "exec" /\ TakeIsSame(q, h) /\ ~asNext
        asPrep == q.ph = "exec" /\ "prep" \in q.must /\ h = q.cur
        asGhost == ~asNext /\ ~asSame /\ ~asPrep /\ TakeIsGhost(q, h)
        \* the close notification of the same send can be logged first (the hook fires before OnClose takes the
        \* request lock, which the sending goroutine still holds): the host is already accounted for
        asDup == ~asNext /\ ~asSame /\ ~asPrep /\ ~asGhost /\ q.nrep = 0
                 /\ q.tried # <<>> /\ h = q.tried[Len(q.tried)]
    IN
    /\ rq' = [rq EXCEPT ![r] =
                [q EXCEPT !.tried = IF asNext \/ asGhost THEN Append(q.tried, h) ELSE q.tried,
                          !.shaky = ShakyNow(q.sess), !.down = DownNow(q.sess),
                          !.stale = (IF asGhost THEN q.stale - 1 ELSE q.stale) + (IF why = "write" THEN 1 ELSE 0),
                          !.fork = q.fork \/ why = "write",
                          !.ans = IF asNext \/ asSame \/ asPrep THEN NONE ELSE q.ans,
                          !.must = IF asDup THEN q.must \cup {"next"}   \* the sending path goes on to the next host
                                   ELSE IF asSame THEN (IF RetrySameSpins THEN q.must ELSE {"next"})
                                   ELSE IF asPrep THEN (IF ReprepareFailForwards THEN {"reply_unprepared"} ELSE {"next"})
                                   ELSE q.must]]
    /\ bad' = Flag(justified /\ (asNext \/ asSame \/ asPrep \/ asGhost \/ asDup \/ q.fork), "C05",
                   IF ~justified THEN "send to a host with usable connections failed (host skipped)"
                   ELSE "send attempt not prescribed by the retry policy", r)
    /\ UNCHANGED <<conn, out>>

(* Hook justification: r was notified that a connection to host h closed.  This    *)
(* only matters when the send was swallowed by a connection that was already dead  *)
(* (the backend never took the attempt); otherwise DoDrop has handled it.          *)
DoOnClose(r, h) ==
    LET q == rq[r] IN
    IF r \notin DOMAIN rq THEN UNCHANGED <<rq, conn, out, bad>>
    ELSE
    LET asNext == q.ph = "exec" /\ TakeIsNext(q, h)
        asSame == q.ph = "exec" /\ ~asNext /\ (TakeIsSame(q, h) \/ ("prep" \in q.must /\ h = q.cur))
    IN
    /\ rq' = [rq EXCEPT ![r] =
                IF asNext THEN [q EXCEPT !.tried = Append(q.tried, h), !.cur = h, !.must = OnCloseMoves(q), !.ans = NONE, !.shaky = ShakyNow(q.sess), !.down = DownNow(q.sess)]
                ELSE IF asSame THEN [q EXCEPT !.must = OnCloseMoves(q), !.ans = NONE, !.shaky = ShakyNow(q.sess), !.down = DownNow(q.sess)]
                ELSE q]
    /\ bad' = Flag(~(asNext \/ asSame) \/ WasShaky(q, h) \/ q.fork, "C05", "request notified of a closed connection on a host whose connections are all up", r)
    /\ UNCHANGED <<conn, out>>

(* Proxy move: the client receives a frame on (c, s).  r is the request the frame  *)
(* is attributed to (by token, else by stream).                                    *)
DoReply(r, c, s, kind, tok, node) ==
    LET q == rq[r] IN
    IF r \notin DOMAIN rq THEN
        /\ bad' = Flag(FALSE, "C02", "reply that no request of this client caused", r) /\ UNCHANGED <<rq, conn, out>>
    ELSE
    LET own == q.c = c /\ q.s = s
        first == q.nrep = 0
        allowed == ("reply_" \o kind) \in q.must
                   \/ (kind = "nohosts" /\ "next" \in q.must /\ Len(q.tried) >= Len(HostOrder))
                   \/ (kind = "connclosed" /\ q.stale > 0 /\ ~q.idem)
                   \/ (q.fork /\ kind = "nohosts")
        content == IF q.op = "LOCAL" THEN kind # "ok" \/ (tok = q.tok /\ node = "")   \* the proxy's own rows name no node
                   ELSE kind # "ok" \/ q.op = "PREPARE" \/ (tok = q.tok /\ (node = q.cur \/ node \in Range(q.tried)))
        \* the frame is either the proxy's own error or the answer some backend gave to an attempt of this request
        known == \/ kind \in {"nohosts", "connclosed"}
                 \/ (q.op = "LOCAL" /\ kind = "ok")
                 \/ \E i \in DOMAIN q.attlog : ReplyKind(q.attlog[i][2]) = kind
                 \/ (q.ans # NONE /\ ReplyKind(q.ans) = kind)
    IN
    /\ rq' = [rq EXCEPT ![r] = [q EXCEPT !.ph = "done", !.must = IF q.fork /\ kind = "connclosed" THEN q.must \cap {"next", "same"} ELSE {}, !.nrep = q.nrep + 1, !.ans = NONE,
                                         !.lastkind = IF q.nrep = 0 THEN kind ELSE q.lastkind]]
    /\ bad' = Flag(own /\ first /\ allowed /\ content,
                   IF ~own THEN "C02" ELSE IF ~first THEN "C01" ELSE IF ~content THEN "C02"
                   ELSE IF kind = "unprepared" /\ q.cached THEN "C08"
                   ELSE IF q.mode = "prep" THEN "C08"     \* whatever the client is told while its request is being re-prepared
                   ELSE IF ~known /\ tok = "" /\ kind # "ok" THEN "C05"
                   ELSE IF ~known THEN "C02"
                   ELSE IF q.op = "LOCAL" THEN "C02" ELSE "C05",
                   IF ~own THEN "response delivered on a stream/client that did not send the request"
                   ELSE IF ~first THEN "second response for one request"
                   ELSE IF ~content THEN "response carries another request's answer"
                   ELSE IF kind = "unprepared" /\ q.cached THEN "UNPREPARED returned although the statement is cached"
                   ELSE IF q.mode = "prep" /\ q.pans = "ok" THEN "request answered without being re-executed after its statement was re-prepared"
                   ELSE IF q.mode = "prep"
                        THEN "request answered in a way its re-preparation does not allow (a failed or lost re-preparation moves on to the next host)"
                   ELSE IF ~known /\ tok = "" /\ kind # "ok"
                        THEN "the client received an error of the proxy's own making where the retry policy prescribes another move"
                   ELSE IF ~known THEN "response is not the answer to any attempt of this request"
                   ELSE IF q.op = "LOCAL" THEN "a read of the virtual system tables was answered with something else than its rows"
                   ELSE "reply not prescribed by the retry policy", r)
    /\ UNCHANGED <<conn, out>>

(* The backend received, on connection b, a frame from the proxy that it cannot decode (with the settings of that       *)
(* connection).  r is the request the proxy registered for that backend stream, if the hooks know it (a re-PREPARE).     *)
DoBadFrame(r, prep) ==
    /\ bad' = Flag(FALSE, IF prep THEN "C08" ELSE "C03",
                   IF prep THEN "the re-PREPARE sent for the request cannot be decoded by the backend (not the client's statement for this connection)"
                   ELSE "the proxy sent the backend a frame that the backend cannot decode", r)
    \* the backend answers with a protocol error: a failed re-prepare moves on
    /\ rq' = IF r \in DOMAIN rq THEN [rq EXCEPT ![r].must = @ \cup {"next"}] ELSE rq
    /\ UNCHANGED <<conn, out>>

DoClientClose(c) ==
    /\ rq' = [r \in DOMAIN rq |-> IF rq[r].c = c THEN [rq[r] EXCEPT !.closed = TRUE] ELSE rq[r]]
    /\ UNCHANGED <<conn, out, bad>>

(* Quiescence: nothing has happened for the quiescence window.  Every request of a *)
(* connected client whose attempts were all answered or dropped must be answered.  *)
Owed(r) == /\ rq[r].nrep = 0 /\ ~rq[r].closed
           /\ ~(\E x \in out : x.r = r /\ conn[x.b].alive)   \* no attempt the backend is still silent on
DoQuiet ==
    /\ bad' = LET owed == {r \in DOMAIN rq : Owed(r)} IN
              IF owed = {} THEN bad
              ELSE LET afterprep == {r \in owed : rq[r].mode = "prep" \/ "prep" \in rq[r].must} IN
                   \* C08: "if re-preparation fails the request moves on to the next host instead of hanging or being dropped"
                   IF afterprep # {} THEN Flag(FALSE, "C08", IF \E r \in afterprep : rq[r].mode = "prep"
                                                                  THEN "request hangs after its statement was re-prepared (never re-executed, never answered)"
                                                                  ELSE "request hangs although its statement has to be re-prepared (never re-prepared, never answered)",
                                                     CHOOSE r \in afterprep : TRUE)
                   ELSE Flag(FALSE, "C01", "request never answered although every attempt was answered or dropped", CHOOSE r \in owed : TRUE)
    /\ UNCHANGED <<rq, conn, out>>

=============================================================================
