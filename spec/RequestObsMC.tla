----------------------------- MODULE RequestObsMC -----------------------------
(* Exhaustive exploration of RequestObs: the proxy takes only moves that the       *)
(* documented policy allows, the environment answers every attempt with every      *)
(* outcome class of the configuration, drops connections and reconnects.  TLC      *)
(* checks on all outcome / fault sequences that these moves satisfy the listed     *)
(* properties (C01 C04 C05 C08) and exports every terminal attempt history as a    *)
(* scenario script for replay against the real proxy.                              *)
EXTENDS Naturals, Sequences, FiniteSets, TLC, Json

CONSTANTS NHosts, NReqs, IdemSet, CachedSet, OutcomeSet, MaxDrops,
          Spins, Forwards,    \* legacy switches (see RequestObs)
          Export              \* TRUE: print terminal histories as scenario scripts

VARIABLES rq, conn, out, bad, drops, nextb

vars == <<rq, conn, out, bad, drops, nextb>>

HostName(i) == "h" \o ToString(i)
HostSeq == [i \in 1..NHosts |-> HostName(i)]

O == INSTANCE RequestObs WITH HostOrder <- HostSeq, NumConns <- 1, StreamLimit <- 2048,
                              ReprepareFailForwards <- Forwards, RetrySameSpins <- Spins

Empty == [x \in {} |-> 0]

Init == /\ rq = Empty
        /\ conn = [b \in 1..NHosts |-> [h |-> HostName(b), alive |-> TRUE, fresh |-> FALSE, sess |-> "s"]]
        /\ out = {} /\ bad = <<>> /\ drops = 0 /\ nextb = NHosts + 1

\* requests that the proxy answers itself (reads of the virtual system tables); a configuration overrides it
LocalSet == {}
LocalOne == {2}

Submit ==
    LET r == Cardinality(DOMAIN rq) + 1 IN
    /\ r <= NReqs
    /\ O!DoSubmit(r, 1, r, r \in IdemSet, IF r \in LocalSet THEN "LOCAL" ELSE "EXECUTE", r \in CachedSet, r, "s")
    /\ UNCHANGED <<drops, nextb>>

Usable(h) == {b \in DOMAIN conn : conn[b].h = h /\ conn[b].alive}

ProxyTake(r) ==
    /\ rq[r].ph = "exec"
    /\ \E h \in O!Hosts : \E b \in Usable(h) :
          /\ O!TakeIsNext(rq[r], h) \/ O!TakeIsSame(rq[r], h)
          /\ O!DoTake(r, h, b, 10 * r + rq[r].natt, "EXECUTE")
    /\ UNCHANGED <<drops, nextb>>

ProxyPrep(r) ==
    /\ rq[r].ph = "exec" /\ "prep" \in rq[r].must
    /\ conn[rq[r].ab].alive
    /\ O!DoTake(r, rq[r].cur, rq[r].ab, 10 * r + 9, "PREPARE")
    /\ UNCHANGED <<drops, nextb>>

\* a send fails (no connection / closing connection) on a host whose connection is gone
ProxySendFail(r) ==
    /\ rq[r].ph = "exec"
    /\ \E h \in O!Hosts :
          /\ O!Shaky(h, "s") /\ Usable(h) = {}
          /\ O!TakeIsNext(rq[r], h) \/ O!TakeIsSame(rq[r], h) \/ ("prep" \in rq[r].must /\ h = rq[r].cur)
          /\ O!DoSendFail(r, h, "noconn")
    /\ UNCHANGED <<drops, nextb>>

ReplyKinds == {"ok", "rt", "wt", "unavail", "boot", "srverr", "overloaded", "truncate", "rfail", "wfail",
               "unprepared", "invalid", "syntax", "funcfail", "other", "connclosed"}

ProxyReply(r) ==
    /\ rq[r].ph = "exec"
    /\ \/ \E k \in ReplyKinds : ("reply_" \o k) \in rq[r].must
                                  /\ O!DoReply(r, rq[r].c, rq[r].s, k, rq[r].tok, IF rq[r].op = "LOCAL" THEN "" ELSE rq[r].cur)
       \/ /\ "next" \in rq[r].must /\ Len(rq[r].tried) >= NHosts
          /\ O!DoReply(r, rq[r].c, rq[r].s, "nohosts", 0, "none")
    /\ UNCHANGED <<drops, nextb>>

EnvAnswer ==
    /\ \E x \in out : \E o \in (IF x.op = "prep" THEN {"ok", "srverr"} ELSE OutcomeSet) :
          /\ (o = "unprepared" => rq[x.r].natt <= 2)     \* bound re-prepare loops
          /\ O!DoAnswer(x.r, x.b, x.bs, o)
    /\ UNCHANGED <<drops, nextb>>

EnvDrop ==
    /\ drops < MaxDrops
    /\ \E b \in DOMAIN conn : conn[b].alive /\ O!DoDrop(b)
    /\ drops' = drops + 1
    /\ UNCHANGED nextb

EnvReconnect ==
    /\ \E h \in O!Hosts : Usable(h) = {} /\ O!DoConn(nextb, h, FALSE, "s")
    /\ nextb' = nextb + 1
    /\ UNCHANGED drops

ProxyStep(r) == ProxyTake(r) \/ ProxyPrep(r) \/ ProxySendFail(r) \/ ProxyReply(r)
Next == Submit \/ (\E r \in DOMAIN rq : ProxyStep(r)) \/ EnvAnswer \/ EnvDrop \/ EnvReconnect

Spec == Init /\ [][Next]_vars
FairSpec == Spec /\ \A r \in 1..NReqs : WF_vars(r \in DOMAIN rq /\ ProxyStep(r))
                 /\ WF_vars(EnvAnswer)     \* a node may stay down: no fairness for EnvReconnect

-----------------------------------------------------------------------------
NoDup(s) == \A i, j \in DOMAIN s : i # j => s[i] # s[j]

\* sanity: a proxy that follows `must` is never flagged
NoBad == bad = <<>>

\* C01: at most one reply
AtMostOneReply == \A r \in DOMAIN rq : rq[r].nrep <= 1

\* C09 / C02: a request the proxy answers itself never reaches a backend and is answered with its own rows
LocalNeverForwarded == \A r \in DOMAIN rq : rq[r].op = "LOCAL" => rq[r].natt = 0 /\ rq[r].tried = <<>>

\* C04: a request that is not positively idempotent is re-executed only after safe outcomes
NonIdemNotReexecuted ==
    \A r \in DOMAIN rq : ~rq[r].idem =>
        \A i \in 2..Len(rq[r].attlog) : rq[r].attlog[i - 1][2] \in O!SafeToResend

\* C05: each host at most once per traversal; attempts bounded by hosts + 1 (+ re-executions after re-prepare)
EachHostOnce == \A r \in DOMAIN rq : NoDup(rq[r].tried)
AttemptsBounded == \A r \in DOMAIN rq : Len(rq[r].tried) <= NHosts /\ rq[r].natt <= NHosts + 1 + 2

\* C05: an idempotent request succeeds whenever some host in its plan answers successfully
SucceedsIfSomeHostOk ==
    \A r \in DOMAIN rq :
        (rq[r].ph = "done" /\ drops = 0 /\ \E i \in DOMAIN rq[r].attlog : rq[r].attlog[i][2] = "ok") => rq[r].lastkind = "ok"

\* C05: "no more hosts" exactly when every host has been tried
NoHostsIffAllTried ==
    \A r \in DOMAIN rq : rq[r].lastkind = "nohosts" => Len(rq[r].tried) = NHosts

\* C05: the error returned is the first one the policy does not retry (no connection loss)
ReturnsFirstFinal ==
    \A r \in DOMAIN rq :
        (rq[r].ph = "done" /\ drops = 0 /\ rq[r].lastkind \notin {"nohosts", "ok"}) =>
            LET a == rq[r].attlog IN Len(a) > 0 /\ O!ReplyKind(a[Len(a)][2]) = rq[r].lastkind

\* C08: UNPREPARED is never returned for a cached statement (repaired behaviour)
NeverUnpreparedWhileCached ==
    \A r \in DOMAIN rq : (rq[r].cached /\ ~Forwards) => rq[r].lastkind # "unprepared"

\* C01 (never none), terminal form: when nothing is outstanding and no proxy move is enabled, everything is answered
AllAnsweredAtRest ==
    (out = {} /\ ~(\E r \in DOMAIN rq : ENABLED ProxyStep(r))) => \A r \in DOMAIN rq : rq[r].ph = "done"

\* C01/C05 termination: every submitted request is eventually answered (fair proxy, every attempt answered)
Done(r) == r \in DOMAIN rq /\ rq[r].ph = "done"
EventuallyAnswered == \A r \in 1..NReqs : [](r \in DOMAIN rq => <>Done(r))

-----------------------------------------------------------------------------
Outcome(a) == a[2]
ExportInv ==
    Export => \A r \in DOMAIN rq :
        (rq[r].ph = "done" /\ out = {}) =>
            PrintT(<<"SCN", ToJson([idem |-> rq[r].idem, cached |-> rq[r].cached,
                                    outcomes |-> [i \in DOMAIN rq[r].attlog |-> rq[r].attlog[i][2]],
                                    reply |-> rq[r].lastkind, tried |-> Len(rq[r].tried)])>>)
=============================================================================
