SPECIFICATION Spec
CONSTANTS
  NHosts = 3
  NReqs = 1
  IdemSet = {1}
  CachedSet = {1}
  OutcomeSet = {"ok", "rt_same", "unavail", "srverr", "rfail", "unprepared"}
  MaxDrops = 2
  Spins = @SPINS@
  Forwards = @FORWARDS@
  Export = TRUE
INVARIANTS ExportInv
CHECK_DEADLOCK FALSE
