SPECIFICATION Spec
CONSTANTS
  NHosts = 3
  NReqs = 1
  IdemSet = {1}
  CachedSet = {1}
  OutcomeSet = {"ok", "rt_same", "rt_other", "wt_batchlog", "wt_other", "unavail", "boot", "srverr", "overloaded", "truncate", "rfail", "wfail", "unprepared", "invalid", "syntax", "funcfail"}
  MaxDrops = 0
  Spins = @SPINS@
  Forwards = @FORWARDS@
  Export = TRUE
INVARIANTS ExportInv
CHECK_DEADLOCK FALSE
