SPECIFICATION FairSpec
CONSTANTS
  NHosts = 2
  NReqs = 1
  IdemSet = {1}
  CachedSet = {1}
  OutcomeSet = {"ok", "rt_same", "srverr", "unprepared"}
  MaxDrops = 2
  Spins = @SPINS@
  Forwards = @FORWARDS@
  Export = FALSE
PROPERTIES EventuallyAnswered
CHECK_DEADLOCK FALSE
