\* one forwarded request and one the proxy answers itself
SPECIFICATION Spec
CONSTANTS
  NHosts = 2
  NReqs = 2
  IdemSet = {1, 2}
  CachedSet = {1}
  OutcomeSet = {"ok", "srverr", "unprepared", "wt_other"}
  MaxDrops = 1
  Spins = @SPINS@
  Forwards = @FORWARDS@
  Export = FALSE
  LocalSet <- LocalOne
INVARIANTS NoBad AtMostOneReply LocalNeverForwarded NonIdemNotReexecuted EachHostOnce
CHECK_DEADLOCK FALSE
