SPECIFICATION Spec
CONSTANTS
  NHosts = 3
  NReqs = 2
  IdemSet = {1}
  CachedSet = {1, 2}
  OutcomeSet = {"ok", "rt_same", "wt_batchlog", "unavail", "srverr", "rfail", "unprepared"}
  MaxDrops = 1
  Spins = @SPINS@
  Forwards = @FORWARDS@
  Export = FALSE
INVARIANTS NoBad AtMostOneReply NonIdemNotReexecuted EachHostOnce AttemptsBounded SucceedsIfSomeHostOk NoHostsIffAllTried ReturnsFirstFinal NeverUnpreparedWhileCached
CHECK_DEADLOCK FALSE
