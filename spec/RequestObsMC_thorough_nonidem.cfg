SPECIFICATION Spec
CONSTANTS
  NHosts = 4
  NReqs = 1
  IdemSet = {}
  CachedSet = {1}
  OutcomeSet = {"ok", "rt_same", "rt_other", "wt_batchlog", "wt_other", "unavail", "boot", "srverr", "rfail", "unprepared", "invalid"}
  MaxDrops = 2
  Spins = @SPINS@
  Forwards = @FORWARDS@
  Export = FALSE
INVARIANTS NoBad AtMostOneReply NonIdemNotReexecuted EachHostOnce AttemptsBounded SucceedsIfSomeHostOk NoHostsIffAllTried ReturnsFirstFinal NeverUnpreparedWhileCached
CHECK_DEADLOCK FALSE
