SPECIFICATION Spec
CONSTANTS
  NHosts = 2
  NReqs = 2
  IdemSet = {1}
  CachedSet = {1, 2}
  OutcomeSet = {"ok", "rt_same", "srverr", "unprepared"}
  MaxDrops = 1
  Spins = @SPINS@
  Forwards = @FORWARDS@
  Export = FALSE
INVARIANTS NoBad AtMostOneReply NonIdemNotReexecuted EachHostOnce AttemptsBounded SucceedsIfSomeHostOk NoHostsIffAllTried ReturnsFirstFinal NeverUnpreparedWhileCached
CHECK_DEADLOCK FALSE
