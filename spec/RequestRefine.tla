---------------------------- MODULE RequestRefine ----------------------------
(* Refinement check between the two levels of the request-lifecycle specification:     *)
(* every behaviour of the design-level model Request.tla (goroutines, locks), projected *)
(* onto what sockets and hooks can observe, must be accepted by the observable-level    *)
(* specification RequestObs.tla - the specification that validates traces of the real   *)
(* proxy.  The design model is run in lock step with an instance of RequestObs: every   *)
(* design action that corresponds to an observable event (client submits, backend takes *)
(* / answers, connection dropped, reply sent, a send refused, a close notification)      *)
(* applies the corresponding total action of RequestObs; the invariant ObsAccepts says   *)
(* no event is ever flagged.  A violation means either that the design breaks a listed   *)
(* property or that the observable specification is stricter than the design allows - a  *)
(* false alarm waiting to happen on real traces.                                         *)
EXTENDS RequestMC

VARIABLES orq, oconn, oout, obad

O == INSTANCE RequestObs WITH rq <- orq, conn <- oconn, out <- oout, bad <- obad,
                              HostOrder <- HostSeq, NumConns <- 1, StreamLimit <- 2048,
                              ReprepareFailForwards <- FALSE, RetrySameSpins <- FALSE

ovars == <<orq, oconn, oout, obad>>
rvars == <<vars, ovars>>
OUnch == UNCHANGED ovars
Empty == [x \in {} |-> 0]
\* the observable connection id of host h is its index in HostSeq
CId(h) == CHOOSE i \in DOMAIN HostSeq : HostSeq[i] = h

RInit == /\ Init
         /\ orq = Empty /\ oout = {} /\ obad = <<>>
         /\ oconn = [i \in DOMAIN HostSeq |-> [h |-> HostSeq[i], alive |-> TRUE, fresh |-> FALSE, sess |-> "s"]]

Replied(r) == Len(replies'[r]) > Len(replies[r])
LastReply(r) == LET x == replies'[r][Len(replies'[r])] IN IF x \in OutcomeSet THEN O!ReplyKind(x) ELSE x

\* the reply (if any) that a design step produced, as an observable event
ObsReply(t, node) ==
    LET r == th[t].r IN
    IF Replied(r) THEN O!DoReply(r, 1, r, LastReply(r), r, node) ELSE OUnch

RCRRecv ==
    /\ CRRecv
    /\ LET r == th'["cr"].r IN O!DoSubmit(r, 1, r, r \in Idem, "QUERY", FALSE, r, "s")

RXPick(t) ==
    /\ XPick(t)
    /\ LET r == th[t].r IN
       IF Replied(r) THEN O!DoReply(r, 1, r, "nohosts", 0, "none")
       ELSE IF th'[t].pc = "xpick" /\ ~rq[r].done /\ rq'[r].host # NIL /\ ~cn[rq'[r].host].slot
            THEN O!DoSendFail(r, rq'[r].host, "noconn")       \* hook send.noconn
       ELSE OUnch

RXAdd(t) ==
    /\ XAdd(t)
    /\ IF th'[t].pc = "xpick" THEN O!DoSendFail(th[t].r, th[t].b, "closed") ELSE OUnch     \* hook pending.refuse

RXWrite(t) ==
    /\ XWrite(t)
    /\ IF th'[t].pc = "xpick" THEN O!DoSendFail(th[t].r, th[t].b, "write") ELSE OUnch      \* hook send.wrote(err)

HostOfReader(t) == CHOOSE h \in Hosts : BR(h) = t
RBRResult(t) ==
    /\ BRResult(t)
    /\ ObsReply(t, HostOfReader(t))

ROnClose(t) ==
    /\ OnClose(t)
    /\ ObsReply(t, "none")

RCLIter(b) ==
    /\ CLIter(b)
    /\ IF th'[BR(b)].pc = "oc_lock" THEN O!DoOnClose(th'[BR(b)].r, b) ELSE OUnch           \* hook closing.notify

RBTake(b) ==
    /\ BTake(b)
    /\ LET r == CHOOSE x \in bk'[b] : x \notin bk[b] IN O!DoTake(r, b, CId(b), r, "QUERY")

RBAnswer(b) ==
    /\ BAnswer(b)
    /\ LET m == CHOOSE x \in resp'[b] : x \notin resp[b] IN O!DoAnswer(m[1], CId(b), m[1], m[2])

RDrop(b) ==
    /\ Drop(b)
    /\ O!DoDrop(CId(b))

RNext ==
    \/ RCRRecv
    \/ \E t \in Threads : (Lock(t) /\ OUnch) \/ RXPick(t) \/ RXAdd(t) \/ RXWrite(t) \/ (XExit(t) /\ OUnch) \/ RBRResult(t) \/ ROnClose(t)
    \/ \E b \in Hosts : (BRRecv(b) /\ OUnch) \/ (BRDead(b) /\ OUnch) \/ (CLLock(b) /\ OUnch) \/ RCLIter(b)
                        \/ (PMClear(b) /\ OUnch) \/ (WriterErr(b) /\ OUnch)
                        \/ RBTake(b) \/ RBAnswer(b) \/ RDrop(b)
    \/ (Terminated /\ OUnch)

RSpec == RInit /\ [][RNext]_rvars

\* the observable-level specification accepts every behaviour of the design
ObsAccepts == obad = <<>>
\* when the design is at rest the observable specification agrees that nothing is owed
QuietAgrees == (AllAnswered /\ \A t \in Threads : th[t].pc \in {"idle", "watch", "dead", "gone"})
                  => \A r \in DOMAIN orq : ~O!Owed(r)
rview == <<view, [r \in DOMAIN orq |-> [orq[r] EXCEPT !.attlog = <<>>]], oconn, oout, obad>>
=============================================================================
