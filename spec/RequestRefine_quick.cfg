SPECIFICATION RSpec
CONSTANTS
  HostSeq <- MCHosts2
  Start <- MCStart
  Reqs = {1, 2}
  Idem = {1}
  OutcomeSet = {"ok", "rt_same", "srverr"}
  MaxDrops = 1
  ClosingHoldsLock = FALSE
  RetrySameSticks = FALSE
VIEW rview
INVARIANTS ObsAccepts QuietAgrees AtMostOneReply
CHECK_DEADLOCK FALSE
