SPECIFICATION RSpec
CONSTANTS
  HostSeq <- MCHosts3
  Start <- MCStart
  Reqs = {1, 2}
  Idem = {1}
  OutcomeSet = {"ok", "srverr"}
  MaxDrops = 2
  ClosingHoldsLock = FALSE
  RetrySameSticks = FALSE
VIEW rview
INVARIANTS ObsAccepts QuietAgrees AtMostOneReply
CHECK_DEADLOCK FALSE
