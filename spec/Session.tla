------------------------------- MODULE Session -------------------------------
(* Per-client keyspace / protocol version / compression and the session table       *)
(* (proxy/proxy.go: client.{keyspace, compression}, Proxy.sessions, findSession,     *)
(*  maybeCreateSession(Unlocked), interceptSystemQuery for USE; proxycore/session.go *)
(*  ConnectSession; proxycore/connpool.go connect: STARTUP options + USE).           *)
(*                                                                                   *)
(* A USE is three steps in the code and three actions here: UseConnect (a new         *)
(* session connects its pools with `USE ks`; any failure fails the session),          *)
(* UseStore (the session is put into the table) and UseReply (client.keyspace is      *)
(* updated and RESULT SET_KEYSPACE is sent).  Several clients run these steps         *)
(* concurrently, including for the same key.  The session table lock is explicit.     *)
EXTENDS Naturals, Sequences, FiniteSets, TLC

CONSTANTS Clients, Keyspaces, Valid,   \* Valid \subseteq Keyspaces exist in the backend
          Attr,                        \* Attr[c] = <<version, compression>> of client c
          MaxOps,
          StoreUnderReadLock           \* legacy switch: the table is written while holding only the read lock (pinned tree)

VARIABLES ks,        \* c -> current keyspace ("" = none)
          pc,        \* c -> idle | connect | store | reply | fail | fwd
          tgt,       \* c -> keyspace of the USE in progress
          news,      \* c -> session created by the USE in progress (or 0)
          sess,      \* session id -> [ks, attr]
          table,     \* key <<attr, ks>> -> session id
          lock,      \* [r |-> set of clients holding the read lock, w |-> writer or "none"]
          ops,       \* operations started
          log,       \* the last forwarded request: <<c, ks[c] at forward time, session ks, session attr>>
          replies    \* the last reply: <<c, kind, ks>>

vars == <<ks, pc, tgt, news, sess, table, lock, ops, log, replies>>

Key(c, k) == <<Attr[c], k>>

Init == /\ ks = [c \in Clients |-> ""] /\ pc = [c \in Clients |-> "idle"]
        /\ tgt = [c \in Clients |-> ""] /\ news = [c \in Clients |-> 0]
        /\ sess = <<>> /\ table = [x \in {} |-> 0]
        /\ lock = [r |-> {}, w |-> "none"] /\ ops = 0 /\ log = <<>> /\ replies = <<>>

NewSession(k, a) == Append(sess, [ks |-> k, attr |-> a])

(* client sends USE k: maybeCreateSession takes the read lock *)
UseStart(c, k) ==
    /\ pc[c] = "idle" /\ ops < MaxOps /\ lock.w = "none"
    /\ lock' = [lock EXCEPT !.r = @ \cup {c}]
    /\ pc' = [pc EXCEPT ![c] = IF Key(c, k) \in DOMAIN table THEN "reply" ELSE "connect"]
    /\ tgt' = [tgt EXCEPT ![c] = k] /\ ops' = ops + 1
    /\ UNCHANGED <<ks, news, sess, table, log, replies>>

(* ConnectSession: every pooled connection issues STARTUP(attr) and USE k *)
UseConnect(c) ==
    /\ pc[c] = "connect"
    /\ IF tgt[c] \in Valid
       THEN /\ sess' = NewSession(tgt[c], Attr[c])
            /\ news' = [news EXCEPT ![c] = Len(sess) + 1]
            /\ pc' = [pc EXCEPT ![c] = "store"]
       ELSE /\ pc' = [pc EXCEPT ![c] = "fail"] /\ UNCHANGED <<sess, news>>
    /\ UNCHANGED <<ks, tgt, table, lock, ops, log, replies>>

(* p.sessions[key] = sess *)
UseStore(c) ==
    /\ pc[c] = "store"
    /\ StoreUnderReadLock \/ (lock.r \subseteq {c} /\ lock.w \in {"none", c})
    /\ table' = (Key(c, tgt[c]) :> news[c]) @@ table
    /\ pc' = [pc EXCEPT ![c] = "reply"]
    /\ UNCHANGED <<ks, tgt, news, sess, lock, ops, log, replies>>

UseReply(c) ==
    /\ pc[c] = "reply"
    /\ ks' = [ks EXCEPT ![c] = tgt[c]]
    /\ replies' = <<c, "setks", tgt[c]>>
    /\ lock' = [lock EXCEPT !.r = @ \ {c}]
    /\ pc' = [pc EXCEPT ![c] = "idle"]
    /\ UNCHANGED <<tgt, news, sess, table, ops, log>>

UseFail(c) ==
    /\ pc[c] = "fail"
    /\ replies' = <<c, "error", tgt[c]>>
    /\ lock' = [lock EXCEPT !.r = @ \ {c}]
    /\ pc' = [pc EXCEPT ![c] = "idle"]
    /\ UNCHANGED <<ks, tgt, news, sess, table, ops, log>>

(* a data request: findSession(version, client.keyspace, compression) then forward on that session *)
Forward(c) ==
    /\ pc[c] = "idle" /\ ops < MaxOps /\ lock.w = "none"
    /\ ops' = ops + 1
    /\ IF Key(c, ks[c]) \in DOMAIN table
       THEN /\ log' = <<c, ks[c], sess[table[Key(c, ks[c])]].ks, sess[table[Key(c, ks[c])]].attr>>
            /\ UNCHANGED <<sess, table>>
       ELSE \* created on demand (the default session of a new version/compression); "" is always valid
            /\ sess' = NewSession(ks[c], Attr[c])
            /\ table' = (Key(c, ks[c]) :> Len(sess) + 1) @@ table
            /\ log' = <<c, ks[c], ks[c], Attr[c]>>
    /\ UNCHANGED <<ks, pc, tgt, news, lock, replies>>

Next == \E c \in Clients : (\E k \in Keyspaces : UseStart(c, k)) \/ UseConnect(c) \/ UseStore(c) \/ UseReply(c) \/ UseFail(c) \/ Forward(c)
Spec == Init /\ [][Next]_vars

-----------------------------------------------------------------------------
\* C07: a forwarded request runs on a session whose keyspace/version/compression are the client's
ForwardInClientKs == log # <<>> => (log[2] = log[3] /\ log[4] = Attr[log[1]])
\* C07: only valid keyspaces ever become current; a failed USE leaves the previous keyspace in force
OnlyValidKs == \A c \in Clients : ks[c] = "" \/ ks[c] \in Valid
FailedUseKeepsKs == [][\A c \in Clients : pc[c] = "fail" => ks'[c] = ks[c]]_vars
\* C07: one client's actions never change another client's keyspace
Isolation == [][\A c, d \in Clients : (c # d /\ pc'[c] # pc[c]) => ks'[d] = ks[d]]_vars
\* C18 (design): the session table is written only while no other thread can read it
TableWriteExclusive == [][table' # table => (\A c \in Clients : pc[c] = "store" /\ pc'[c] = "reply" => lock.r \subseteq {c}) ]_vars
=============================================================================
