------------------------------- MODULE Session -------------------------------
(* Per-client keyspace / protocol version / compression and the session table       *)
(* (proxy/proxy.go: client.{keyspace, compression}, Proxy.sessions, findSession,     *)
(*  maybeCreateSessionUnlocked, interceptSystemQuery for USE; proxycore/session.go   *)
(*  ConnectSession + the bootstrap goroutine of Session.OnEvent; connpool.go connect: *)
(*  STARTUP options + USE).                                                           *)
(*                                                                                   *)
(* A USE is a sequence of critical sections in the code and one action each here:     *)
(*   UseStart      findSession: look the key up under the read lock                    *)
(*   TakeWrite     not found: take the write lock, look again                          *)
(*   Listen        ConnectSession registers the new session with the cluster           *)
(*   BootPool      the bootstrap goroutine connects one host's pool (STARTUP + USE);   *)
(*                 a failure is put on the session's `failed` channel                   *)
(*   BootDone      ... and closes `connected` after the last pool                       *)
(*   Select        ConnectSession's select over `connected` and `failed`                *)
(*   UseStore      the session is put into the table, the write lock released            *)
(*   UseReply      client.keyspace is updated and RESULT SET_KEYSPACE is sent            *)
(*   UseFail       the error goes to the client                                          *)
(* Several clients run these steps concurrently, including for the same key.  The      *)
(* table's read/write lock is explicit.                                               *)
EXTENDS Naturals, Sequences, FiniteSets, TLC

CONSTANTS Clients, Keyspaces, Valid,   \* Valid \subseteq Keyspaces exist in the backend
          Attr,                        \* Attr[c] = <<version, compression>> of client c
          NHosts,                      \* pools per session
          MaxOps,
          StoreUnderReadLock,          \* legacy switch (pinned tree): the creator keeps the read lock and writes the table under it
          SelectIgnoresFailure,        \* legacy switch (pinned tree): when `connected` and `failed` are both ready the select may
                                       \* take `connected` and return the session
          ReopenForgetsKs,             \* hazard switch: a pooled connection re-opened after a loss does not issue USE again
          FailKeepsLock                \* hazard switch: the error path of findSession does not release the write lock

VARIABLES ks,        \* c -> current keyspace ("" = none)
          pc,        \* c -> idle | wlock | listen | select | store | reply | fail
          tgt,       \* c -> keyspace of the USE in progress
          news,      \* c -> session created by the USE in progress (or 0)
          boot,      \* c -> the session under construction: [pools (connected so far), failedq, connected] or NoBoot
          sess,      \* session id -> [ks, attr, ok, connks]   ok: every pool connected; connks: the keyspace in force on the
                     \* session's backend connections (connPool.connect issues USE on every connection it opens)
          table,     \* key <<attr, ks>> -> session id
          lock,      \* [r |-> set of clients holding the read lock, w |-> writer or "none"]
          ops,       \* operations started
          log,       \* the last forwarded request: <<c, ks[c] at forward time, session ks, session attr, session ok>>
          replies    \* the last reply: <<c, kind, ks>>

vars == <<ks, pc, tgt, news, boot, sess, table, lock, ops, log, replies>>

Key(c, k) == <<Attr[c], k>>
NoBoot == [pools |-> 0, failedq |-> FALSE, connected |-> FALSE, on |-> FALSE]

Init == /\ ks = [c \in Clients |-> ""] /\ pc = [c \in Clients |-> "idle"]
        /\ tgt = [c \in Clients |-> ""] /\ news = [c \in Clients |-> 0]
        /\ boot = [c \in Clients |-> NoBoot]
        /\ sess = <<>> /\ table = [x \in {} |-> 0]
        /\ lock = [r |-> {}, w |-> "none"] /\ ops = 0 /\ log = <<>> /\ replies = <<>>

NewSession(k, a, ok) == Append(sess, [ks |-> k, attr |-> a, ok |-> ok, connks |-> k])

(* a backend connection of session i is lost and re-opened by connPool.stayConnected -> connect *)
Reopen(i) ==
    /\ i \in DOMAIN sess
    /\ sess' = [sess EXCEPT ![i].connks = IF ReopenForgetsKs THEN "" ELSE sess[i].ks]
    /\ UNCHANGED <<ks, pc, tgt, news, boot, table, lock, ops, log, replies>>

(* client sends USE k: findSession looks the key up under the read lock *)
UseStart(c, k) ==
    /\ pc[c] = "idle" /\ ops < MaxOps /\ lock.w = "none"
    /\ tgt' = [tgt EXCEPT ![c] = k] /\ ops' = ops + 1
    /\ IF Key(c, k) \in DOMAIN table
       THEN pc' = [pc EXCEPT ![c] = "reply"] /\ UNCHANGED lock                       \* RLock ... RUnlock within the step
       ELSE IF StoreUnderReadLock
            THEN pc' = [pc EXCEPT ![c] = "listen"] /\ lock' = [lock EXCEPT !.r = @ \cup {c}]
            ELSE pc' = [pc EXCEPT ![c] = "wlock"] /\ UNCHANGED lock
    /\ UNCHANGED <<ks, news, boot, sess, table, log, replies>>

(* sessionsMu.Lock(); maybeCreateSessionUnlocked looks again *)
TakeWrite(c) ==
    /\ pc[c] = "wlock" /\ lock.w = "none" /\ lock.r = {}
    /\ IF Key(c, tgt[c]) \in DOMAIN table
       THEN pc' = [pc EXCEPT ![c] = "reply"] /\ UNCHANGED lock                       \* found: Lock ... Unlock within the step
       ELSE pc' = [pc EXCEPT ![c] = "listen"] /\ lock' = [lock EXCEPT !.w = c]
    /\ UNCHANGED <<ks, tgt, news, boot, sess, table, ops, log, replies>>

(* ConnectSession: cluster.Listen(session); the cluster answers with the bootstrap event *)
Listen(c) ==
    /\ pc[c] = "listen"
    /\ boot' = [boot EXCEPT ![c] = [NoBoot EXCEPT !.on = TRUE]]
    /\ pc' = [pc EXCEPT ![c] = "select"]
    /\ UNCHANGED <<ks, tgt, news, sess, table, lock, ops, log, replies>>

(* bootstrap goroutine: one host's pool connects (every connection issues STARTUP(attr) and USE k) or fails *)
BootPool(c) ==
    /\ boot[c].on /\ boot[c].pools < NHosts /\ ~boot[c].connected
    /\ boot' = [boot EXCEPT ![c].pools = @ + 1,
                            ![c].failedq = @ \/ tgt[c] \notin Valid]     \* select { case s.failed <- err: default: }
    /\ UNCHANGED <<ks, pc, tgt, news, sess, table, lock, ops, log, replies>>

(* ... wg.Wait(); close(s.connected) *)
BootDone(c) ==
    /\ boot[c].on /\ boot[c].pools = NHosts /\ ~boot[c].connected
    /\ boot' = [boot EXCEPT ![c].connected = TRUE]
    /\ UNCHANGED <<ks, pc, tgt, news, sess, table, lock, ops, log, replies>>

(* ConnectSession's select; the two ready cases are taken nondeterministically *)
SelectFailed(c) ==
    /\ pc[c] = "select" /\ boot[c].failedq
    /\ pc' = [pc EXCEPT ![c] = "fail"]
    /\ UNCHANGED <<ks, tgt, news, boot, sess, table, lock, ops, log, replies>>
SelectConnected(c) ==
    /\ pc[c] = "select" /\ boot[c].connected
    /\ IF boot[c].failedq /\ ~SelectIgnoresFailure
       THEN pc' = [pc EXCEPT ![c] = "fail"] /\ UNCHANGED <<sess, news>>            \* the failure is looked for again
       ELSE /\ sess' = NewSession(tgt[c], Attr[c], ~boot[c].failedq)
            /\ news' = [news EXCEPT ![c] = Len(sess) + 1]
            /\ pc' = [pc EXCEPT ![c] = "store"]
    /\ UNCHANGED <<ks, tgt, boot, table, lock, ops, log, replies>>

(* p.sessions[key] = sess; Unlock *)
UseStore(c) ==
    /\ pc[c] = "store"
    /\ table' = (Key(c, tgt[c]) :> news[c]) @@ table
    /\ pc' = [pc EXCEPT ![c] = "reply"]
    /\ lock' = [r |-> lock.r \ {c}, w |-> IF lock.w = c THEN "none" ELSE lock.w]
    /\ boot' = [boot EXCEPT ![c] = NoBoot]
    /\ UNCHANGED <<ks, tgt, news, sess, ops, log, replies>>

UseReply(c) ==
    /\ pc[c] = "reply"
    /\ ks' = [ks EXCEPT ![c] = tgt[c]]
    /\ replies' = <<c, "setks", tgt[c]>>
    /\ pc' = [pc EXCEPT ![c] = "idle"]
    /\ UNCHANGED <<tgt, news, boot, sess, table, lock, ops, log>>

UseFail(c) ==
    /\ pc[c] = "fail"
    /\ replies' = <<c, "error", tgt[c]>>
    /\ lock' = IF FailKeepsLock THEN lock ELSE [r |-> lock.r \ {c}, w |-> IF lock.w = c THEN "none" ELSE lock.w]
    /\ boot' = [boot EXCEPT ![c] = NoBoot]
    /\ pc' = [pc EXCEPT ![c] = "idle"]
    /\ UNCHANGED <<ks, tgt, news, sess, table, ops, log>>

(* a data request: findSession(version, client.keyspace, compression) then forward on that session *)
Forward(c) ==
    /\ pc[c] = "idle" /\ ops < MaxOps /\ lock.w = "none" /\ lock.r = {}
    /\ ops' = ops + 1
    /\ IF Key(c, ks[c]) \in DOMAIN table
       THEN /\ LET s == sess[table[Key(c, ks[c])]] IN log' = <<c, ks[c], s.connks, s.attr, s.ok>>
            /\ UNCHANGED <<sess, table>>
       ELSE \* created on demand (the default session of a new version/compression; same steps, always succeeding)
            /\ sess' = NewSession(ks[c], Attr[c], TRUE)
            /\ table' = (Key(c, ks[c]) :> Len(sess) + 1) @@ table
            /\ log' = <<c, ks[c], ks[c], Attr[c], TRUE>>
    /\ UNCHANGED <<ks, pc, tgt, news, boot, lock, replies>>

Next == \E c \in Clients : \/ \E k \in Keyspaces : UseStart(c, k)
                           \/ TakeWrite(c) \/ Listen(c) \/ BootPool(c) \/ BootDone(c) \/ SelectFailed(c) \/ SelectConnected(c)
                           \/ UseStore(c) \/ UseReply(c) \/ UseFail(c) \/ Forward(c)
        \/ \E i \in DOMAIN sess : ops < MaxOps /\ Reopen(i)
Spec == Init /\ [][Next]_vars
Fair == Spec /\ WF_vars(Next)

-----------------------------------------------------------------------------
\* C07: a forwarded request runs on a session whose keyspace/version/compression are the client's
ForwardInClientKs == log # <<>> => (log[2] = log[3] /\ log[4] = Attr[log[1]])
\* C07: only valid keyspaces ever become current; a failed USE leaves the previous keyspace in force
OnlyValidKs == \A c \in Clients : ks[c] = "" \/ ks[c] \in Valid
FailedUseKeepsKs == [][\A c \in Clients : pc[c] = "fail" => ks'[c] = ks[c]]_vars
\* C07 / C17: a request is never forwarded on a session one of whose pools failed to connect (a nil pool)
NoBrokenSession == (\A i \in DOMAIN sess : sess[i].ok) /\ (log # <<>> => log[5])
\* C07: one client's actions never change another client's keyspace
Isolation == [][\A c, d \in Clients : (c # d /\ pc'[c] # pc[c]) => ks'[d] = ks[d]]_vars
\* C18 (design): the session table is written only while no other thread can read it
TableWriteExclusive == [][table' # table => (\A c \in Clients : pc[c] = "store" /\ pc'[c] = "reply" => (lock.r \subseteq {c} /\ lock.w \in {c, "none"})) ]_vars
\* every USE is answered (the locks are released on every path)
UseAnswered == \A c \in Clients : pc[c] # "idle" ~> pc[c] = "idle"
\* ... and no lock is left behind when every client is idle
NoLockLeak == (\A c \in Clients : pc[c] = "idle") => (lock.w = "none" /\ lock.r = {})
=============================================================================
