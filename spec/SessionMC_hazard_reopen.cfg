SPECIFICATION Spec
CONSTANTS
  Clients = {"c1", "c2"}
  Keyspaces = {"ks1", "nope"}
  Valid = {"ks1"}
  Attr <- MCAttr
  NHosts = 2
  MaxOps = 4
  StoreUnderReadLock = FALSE
  SelectIgnoresFailure = FALSE
  ReopenForgetsKs = TRUE
  FailKeepsLock = FALSE
INVARIANTS ForwardInClientKs NoLockLeak
CHECK_DEADLOCK FALSE
