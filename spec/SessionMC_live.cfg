SPECIFICATION Fair
CONSTANTS
  Clients = {"c1", "c2"}
  Keyspaces = {"ks1", "nope"}
  Valid = {"ks1"}
  Attr <- MCAttr
  NHosts = 2
  MaxOps = 4
  StoreUnderReadLock = FALSE
  ReopenForgetsKs = FALSE
  FailKeepsLock = FALSE
  SelectIgnoresFailure = FALSE
PROPERTIES UseAnswered
CHECK_DEADLOCK FALSE
