SPECIFICATION Spec
CONSTANTS
  Clients = {"c1", "c2"}
  Keyspaces = {"ks1", "nope"}
  Valid = {"ks1"}
  Attr <- MCAttr
  MaxOps = 4
  StoreUnderReadLock = @STOREUNDERREAD@
PROPERTIES TableWriteExclusive
CHECK_DEADLOCK FALSE
