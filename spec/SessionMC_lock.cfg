SPECIFICATION Spec
CONSTANTS
  Clients = {"c1", "c2"}
  Keyspaces = {"ks1", "nope"}
  Valid = {"ks1"}
  Attr <- MCAttr
  NHosts = 2
  MaxOps = 4
  StoreUnderReadLock = @STOREUNDERREAD@
  ReopenForgetsKs = FALSE
  FailKeepsLock = FALSE
  SelectIgnoresFailure = @SELECTIGNORES@
PROPERTIES TableWriteExclusive
CHECK_DEADLOCK FALSE
