SPECIFICATION Spec
CONSTANTS
  Clients = {"c1", "c2"}
  Keyspaces = {"ks1", "nope"}
  Valid = {"ks1"}
  Attr <- MCAttr
  NHosts = 2
  MaxOps = 3
  StoreUnderReadLock = FALSE
  SelectIgnoresFailure = TRUE
INVARIANTS OnlyValidKs NoBrokenSession
CHECK_DEADLOCK FALSE
