SPECIFICATION Spec
CONSTANTS
  Clients = {"c1", "c2", "c3"}
  Keyspaces = {"ks1", "Ks2", "nope"}
  Valid = {"ks1", "Ks2"}
  Attr <- MCAttr
  NHosts = 2
  MaxOps = 5
  StoreUnderReadLock = @STOREUNDERREAD@
  SelectIgnoresFailure = @SELECTIGNORES@
INVARIANTS ForwardInClientKs OnlyValidKs NoBrokenSession
PROPERTIES FailedUseKeepsKs Isolation TableWriteExclusive
CHECK_DEADLOCK FALSE
