SPECIFICATION Spec
CONSTANTS
  Clients = {"c1", "c2", "c3"}
  Keyspaces = {"ks1", "Ks2", "nope"}
  Valid = {"ks1", "Ks2"}
  Attr <- MCAttr
  NHosts = 2
  MaxOps = 7
  StoreUnderReadLock = @STOREUNDERREAD@
  ReopenForgetsKs = FALSE
  FailKeepsLock = FALSE
  SelectIgnoresFailure = @SELECTIGNORES@
INVARIANTS ForwardInClientKs OnlyValidKs NoBrokenSession NoLockLeak
PROPERTIES FailedUseKeepsKs Isolation TableWriteExclusive
CHECK_DEADLOCK FALSE
