SPECIFICATION Spec
CONSTANTS
  Clients = {"c1", "c2", "c3"}
  Keyspaces = {"ks1", "Ks2", "nope"}
  Valid = {"ks1", "Ks2"}
  Attr <- MCAttr
  MaxOps = 7
  StoreUnderReadLock = TRUE
INVARIANTS ForwardInClientKs OnlyValidKs
PROPERTIES FailedUseKeepsKs Isolation
CHECK_DEADLOCK FALSE
