SPECIFICATION Spec
CONSTANTS
  Ids = {0, 1}
  Reqs = {1, 2, 3, 4}
  Internal = {1, 2}
  ReleaseOnGiveUp = FALSE
INVARIANTS OwnAnswerOnly LeaseHeld
CHECK_DEADLOCK FALSE
