---------------------------- MODULE StreamLease ----------------------------
(* Who owns a backend stream id, seen from both ends of a backend connection.  Pending.tla    *)
(* shows that the table itself is sound; this module adds the backend and time: a request is   *)
(* stored under a free id and written to the backend, the backend answers when it likes, the   *)
(* connection's reader hands an answer frame to whatever request the table holds under the      *)
(* frame's stream id.  The proxy's own requests (heartbeats, topology reads - SendAndReceive)   *)
(* have a deadline: their caller stops waiting.  In the tree the id of such a request STAYS     *)
(* taken until an answer arrives (the late answer is then dropped with the request); the        *)
(* hazard switch ReleaseOnGiveUp returns it to the pool at the deadline (two seeded changes     *)
(* did, r1-C02 and r8-C17): the late answer is then handed to whoever took the id next.        *)
(*                                                                                             *)
(* C02: an answer is delivered only to the request it was produced for.                         *)
EXTENDS Integers, FiniteSets, TLC

CONSTANTS Ids, Reqs, Internal,      \* Internal \subseteq Reqs: requests with a deadline
          ReleaseOnGiveUp

VARIABLES free, map,        \* the pending table (atomic operations, see Pending.tla)
          todo,             \* requests not yet submitted
          sent,             \* [s, r]: frames the backend has read and not answered
          ans,              \* [s, r]: answers on their way to the proxy
          waiting,          \* requests whose caller still waits
          delivered         \* [to, of]: the answer produced for `of` was handed to request `to`
vars == <<free, map, todo, sent, ans, waiting, delivered>>

Init == /\ free = Ids /\ map = [s \in Ids |-> 0] /\ todo = Reqs
        /\ sent = {} /\ ans = {} /\ waiting = {} /\ delivered = {}

Submit(r) ==
    /\ r \in todo /\ free # {}
    /\ \E s \in free :
         /\ free' = free \ {s} /\ map' = [map EXCEPT ![s] = r]
         /\ sent' = sent \cup {[s |-> s, r |-> r]}
    /\ todo' = todo \ {r} /\ waiting' = waiting \cup {r}
    /\ UNCHANGED <<ans, delivered>>

Answer(x) ==
    /\ x \in sent /\ sent' = sent \ {x} /\ ans' = ans \cup {x}
    /\ UNCHANGED <<free, map, todo, waiting, delivered>>

(* the reader: loadAndDelete(stream of the frame), OnResult of what it finds *)
Receive(x) ==
    /\ x \in ans /\ ans' = ans \ {x}
    /\ IF map[x.s] # 0
       THEN /\ delivered' = IF map[x.s] \in waiting THEN delivered \cup {[to |-> map[x.s], of |-> x.r]} ELSE delivered
            /\ waiting' = waiting \ {map[x.s]}
            /\ map' = [map EXCEPT ![x.s] = 0] /\ free' = free \cup {x.s}
       ELSE UNCHANGED <<free, map, waiting, delivered>>      \* a frame on a stream nobody holds
    /\ UNCHANGED <<todo, sent>>

(* the deadline of one of the proxy's own requests passes *)
GiveUp(r) ==
    /\ r \in Internal /\ r \in waiting
    /\ waiting' = waiting \ {r}
    /\ IF ReleaseOnGiveUp
       THEN \E s \in Ids : map[s] = r /\ map' = [map EXCEPT ![s] = 0] /\ free' = free \cup {s}
       ELSE UNCHANGED <<free, map>>
    /\ UNCHANGED <<todo, sent, ans, delivered>>

Next == (\E r \in Reqs : Submit(r) \/ GiveUp(r)) \/ (\E x \in sent : Answer(x)) \/ (\E x \in ans : Receive(x))
Spec == Init /\ [][Next]_vars

OwnAnswerOnly == \A d \in delivered : d.to = d.of
(* an id is in the pool, or it is the id of a request the backend may still answer *)
LeaseHeld == \A x \in sent \cup ans : x.s \notin free /\ map[x.s] = x.r
=============================================================================
