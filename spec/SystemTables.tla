------------------------------ MODULE SystemTables ------------------------------
(* C10 - the virtual system.local / system.peers tables of a group of proxies     *)
(* present a correct, mutually consistent ring.                                   *)
(*                                                                                *)
(* Decision-table style: `row` ranges over                                        *)
(*   kind = "cfg": a proxy-group configuration (one peer list, the proxies that   *)
(*                 are started with it) together with the ring every proxy has to *)
(*                 present, derived from the documented rules (README "Setting up *)
(*                 peer proxies", flag help of --rpc-address/--data-center/       *)
(*                 --tokens, the comment above the token computation, and the     *)
(*                 property statement);                                            *)
(*   kind = "sel": a SELECT over one of the two tables (selector list, spelling   *)
(*                 of the identifiers) together with the projection it has to     *)
(*                 produce (CQL: selectors in order, AS renames, unquoted          *)
(*                 identifiers are case-insensitive, * = every advertised column).*)
(* TLC checks the sanity properties of both tables and exports every row as JSON; *)
(* harness/cmd/vdrv-systables replays the rows against real proxies.              *)
(*                                                                                *)
(* Addresses are abstract: positive integers, ordered as the addresses are        *)
(* ordered (the harness maps k to the k-th smallest of a seeded set of concrete   *)
(* IPv4/IPv6 addresses, ordered by their 16-byte form).  Address 0 stands for     *)
(* "no rpc-address configured" (the address the client connected to).             *)
EXTENDS Integers, Sequences, FiniteSets, TLC, Json

CONSTANTS MaxPeers,  \* every peer list of 0..MaxPeers entries, in every order
          BigSizes,  \* further list lengths n (n+1 prime) explored for a few permutations
          MaxSel,    \* selector lists of length 1..min(MaxSel,2) over the full alphabet,
                     \* length 3 (if MaxSel >= 3) over a reduced alphabet
          Export     \* TRUE: print every row as JSON

VARIABLE row

Range(s) == {s[i] : i \in DOMAIN s}

-----------------------------------------------------------------------------
(* Configurations                                                            *)

BackendDC == "BACKEND_DC"   \* data center of the backend's contact point (backend-derived fact)
AnyVal       == "ANY"          \* value not determined by the statement: nothing is asserted

Perms(n) == {p \in [1..n -> 1..n] : \A i, j \in 1..n : i # j => p[i] # p[j]}
\* i |-> i*s mod (n+1) is a permutation of 1..n when n+1 is prime and 0 < s <= n
Stride(n, s) == [i \in 1..n |-> (i * s) % (n + 1)]
BigPerms(n) == {Stride(n, s) : s \in {1, 2, (n \div 2) + 1, n}}
PermsOf(n) == IF n <= MaxPeers THEN Perms(n) ELSE BigPerms(n)
\* make room for an outsider address o that is not in the list
Lift(pi, o) == [i \in DOMAIN pi |-> IF o # 0 /\ pi[i] >= o THEN pi[i] + 1 ELSE pi[i]]

DcModes  == {"none", "all", "mixed"}
TokModes == {"none", "all"}

\* does the entry (or flag) for address a name a data center?
HasDC(c, a) == \/ c.dcm = "all"
               \/ c.dcm = "mixed" /\ a % 2 = 1
DcName(a) == "dc_" \o ToString(a % 3)
\* tokens configured for address a when tokens are configured at all
ExplicitTokens(a) == IF a % 2 = 0 THEN <<"t" \o ToString(a) \o "a", "t" \o ToString(a) \o "b">>
                     ELSE <<"t" \o ToString(a) \o "a">>

\* self = 0 and list = <<>>: a single proxy without rpc-address and peers
\* self = 0 and list # <<>>: every list entry is started as a proxy (they share the list)
\* self # 0               : one proxy whose own address is not in the list
Members(c, p) == {p} \cup Range(c.list)
Proxies(c) == IF c.self # 0 THEN {c.self} ELSE IF c.list = <<>> THEN {0} ELSE Range(c.list)

Sizes == (0..MaxPeers) \cup BigSizes
Outsiders(n) == IF n <= MaxPeers THEN 0..(n + 1) ELSE {0, 1, (n \div 2) + 1, n + 1}

WellMixed(c) == c.dcm = "mixed" =>
                  \E a, b \in UNION {Members(c, p) : p \in Proxies(c)} : a % 2 = 1 /\ b % 2 = 0

CfgRows ==
  { c \in UNION { UNION { { [kind |-> "cfg", list |-> Lift(pi, o), self |-> o, dcm |-> d, tokm |-> t, dse |-> e] :
                              pi \in PermsOf(n), d \in DcModes, t \in TokModes, e \in BOOLEAN }
                          : o \in Outsiders(n) }
                  : n \in Sizes }
      : WellMixed(c) }

\* what proxy p is started with (flags + shared peer list)
ProxyConfig(c, p) ==
  [rpc    |-> p,
   dc     |-> IF HasDC(c, p) THEN DcName(p) ELSE "",
   tokens |-> IF c.tokm = "all" THEN ExplicitTokens(p) ELSE <<>>,
   peers  |-> [i \in DOMAIN c.list |->
                 [rpc    |-> c.list[i],
                  dc     |-> IF HasDC(c, c.list[i]) THEN DcName(c.list[i]) ELSE "",
                  tokens |-> IF c.tokm = "all" THEN ExplicitTokens(c.list[i]) ELSE <<>>]]]

\* --- the ring proxy p has to present ---------------------------------------
LocalDC(c, p) == IF HasDC(c, p) THEN DcName(p) ELSE BackendDC
\* A peer entry that names no data center: when no entry names one, every proxy runs in the
\* backend's data center, so that is what its peers have to show; in a mixed list the statement
\* does not determine the value.
NodeDC(c, p, a) == IF a = p THEN LocalDC(c, p)
                   ELSE IF HasDC(c, a) THEN DcName(a)
                   ELSE IF c.dcm = "none" THEN BackendDC ELSE AnyVal
Rank(S, a) == Cardinality({b \in S : b < a}) + 1
\* tokens are computed iff none are configured: one token per node, the node with the smallest
\* address gets the minimum token, tokens increase strictly with the address
NodeTok(c, p, a) == IF c.tokm = "all" THEN [explicit |-> ExplicitTokens(a), rank |-> 0]
                    ELSE [explicit |-> <<>>, rank |-> Rank(Members(c, p), a)]
\* host id: a function of the address alone (version-3 UUID of the address text)
Node(c, p, a) == [addr |-> a, dc |-> NodeDC(c, p, a), tok |-> NodeTok(c, p, a), hid |-> a]

Ring(c, p)        == {Node(c, p, a) : a \in Members(c, p)}
LocalTable(c, p)  == {Node(c, p, a) : a \in {b \in Members(c, p) : b = p}}
PeersTable(c, p)  == {Node(c, p, a) : a \in {b \in Members(c, p) : b # p}}

\* token assignments the statement allows for m nodes on an abstract ring 0..m+1 (0 = minimum)
TokAssignments(m) ==
  IF m <= 4 THEN {f \in [1..m -> 0..(m + 1)] : f[1] = 0 /\ \A i, j \in 1..m : i < j => f[i] < f[j]}
  ELSE {[i \in 1..m |-> i - 1]}
Concrete(n, f) == [addr |-> n.addr, dc |-> n.dc, hid |-> n.hid,
                   tok |-> IF n.tok.rank = 0 THEN n.tok.explicit ELSE <<f[n.tok.rank]>>]

IsCfg == row.kind = "cfg"

OneLocalRow == IsCfg => \A p \in Proxies(row) :
                  /\ Cardinality(LocalTable(row, p)) = 1
                  /\ \A n \in LocalTable(row, p) : n.addr = p /\ n.dc = LocalDC(row, p)
PeersAreOthers == IsCfg => \A p \in Proxies(row) :
                  /\ {n.addr : n \in PeersTable(row, p)} = Range(row.list) \ {p}
                  /\ Cardinality(PeersTable(row, p)) = Cardinality(Range(row.list) \ {p})
                  /\ LocalTable(row, p) \cap PeersTable(row, p) = {}
                  /\ LocalTable(row, p) \cup PeersTable(row, p) = Ring(row, p)
TokensDistinct == (IsCfg /\ row.tokm = "none") => \A p \in Proxies(row) :
                  LET m == Cardinality(Members(row, p)) IN
                  \A f \in TokAssignments(m) :
                     LET R == {Concrete(n, f) : n \in Ring(row, p)} IN
                     /\ \A x, y \in R : x.addr # y.addr => x.tok # y.tok
                     /\ \A x, y \in R : x.addr < y.addr => x.tok[1] < y.tok[1]
                     /\ \E x \in R : x.tok = <<0>> /\ \A y \in R : x.addr <= y.addr
HostIdsInjective == IsCfg => \A p \in Proxies(row) : \A x, y \in Ring(row, p) : x.hid = y.hid <=> x.addr = y.addr
\* proxies that share the list, each started with the data center its own entry names
SharesList(c) == c.self = 0 /\ c.list # <<>> /\ c.dcm # "mixed"
Agreement == (IsCfg /\ SharesList(row)) => \A p, q \in Proxies(row) :
                  /\ Ring(row, p) = Ring(row, q)
                  /\ LocalTable(row, p) \subseteq (IF p = q THEN LocalTable(row, q) ELSE PeersTable(row, q))
                  /\ \A n \in Ring(row, p) : n.dc # AnyVal

CfgExport(c) ==
  [kind |-> "cfg", list |-> c.list, self |-> c.self, dcm |-> c.dcm, tokm |-> c.tokm, dse |-> c.dse,
   agree |-> SharesList(c),
   proxies |-> { [addr   |-> p,
                  config |-> ProxyConfig(c, p),
                  local  |-> LocalTable(c, p),
                  peers  |-> PeersTable(c, p)] : p \in Proxies(c) }]

-----------------------------------------------------------------------------
(* Selects                                                                    *)

Tables == {"local", "peers"}

\* the columns of the two tables and their CQL types (Cassandra's system schema); dse_version
\* exists only in front of a DSE backend
Type(col) == CASE col \in {"rpc_address", "peer"}        -> "inet"
               [] col \in {"schema_version", "host_id"}   -> "uuid"
               [] col = "tokens"                          -> "set<varchar>"
               [] OTHER                                   -> "varchar"
LocalCols(dse) == <<"key", "rpc_address", "data_center">> \o (IF dse THEN <<"dse_version">> ELSE <<>>) \o
                  <<"rack", "tokens", "release_version", "partitioner", "cluster_name", "cql_version",
                    "schema_version", "native_protocol_version", "host_id">>
PeersCols(dse) == <<"peer", "rpc_address", "data_center">> \o (IF dse THEN <<"dse_version">> ELSE <<>>) \o
                  <<"rack", "tokens", "release_version", "schema_version", "host_id">>
\* The order is the one the proxy documents for `*`; the harness asserts the *set* and the types
\* and only records whether the order matches.
StarOrder(t, dse) == IF t = "local" THEN LocalCols(dse) ELSE PeersCols(dse)
Catalogue(t, dse) == Range(StarOrder(t, dse))
\* where the value of a column comes from
Source(col) == CASE col = "key"                                   -> "const:local"
                 [] col \in {"rpc_address", "peer"}                -> "node:addr"
                 [] col = "data_center"                            -> "node:dc"
                 [] col = "tokens"                                 -> "node:tokens"
                 [] col = "host_id"                                -> "node:hostid"
                 [] col = "release_version"                        -> "backend:release_version"
                 [] col = "partitioner"                            -> "backend:partitioner"
                 [] col = "cql_version"                            -> "backend:cql_version"
                 [] col = "dse_version"                            -> "backend:dse_version"
                 [] col = "native_protocol_version"                -> "backend:native_protocol_version"
                 [] OTHER                                          -> "any"   \* rack, cluster_name, schema_version

Sel(k, c) == [k |-> k, c |-> c]
Star == Sel("star", "")
FullAlphabet(t, dse) ==
  {Sel("id", c) : c \in Catalogue(t, dse)} \cup {Sel("alias", c) : c \in Catalogue(t, dse)} \cup
  {Sel("count_col", c) : c \in Catalogue(t, dse)} \cup
  {Sel("count_star", ""), Sel("now", ""), Sel("alias_count_star", ""), Sel("alias_now", "")}
RepCols(t) == {IF t = "local" THEN "key" ELSE "peer", "tokens", "host_id", "data_center"}
SmallAlphabet(t, dse) ==
  {Sel("id", c) : c \in RepCols(t)} \cup {Sel("alias", c) : c \in RepCols(t)} \cup
  {Sel("count_col", "host_id"), Sel("count_star", ""), Sel("now", ""), Sel("alias_count_star", ""), Sel("alias_now", "")}

\* `*` is only legal on its own
SelLists(t, dse) ==
  {<<Star>>} \cup {<<s>> : s \in FullAlphabet(t, dse)}
  \cup (IF MaxSel >= 2 THEN {<<a, b>> : a, b \in FullAlphabet(t, dse)} ELSE {})
  \cup (IF MaxSel >= 3 THEN {<<a, b, d>> : a, b, d \in SmallAlphabet(t, dse)} ELSE {})

\* Spelling of identifiers: unquoted identifiers are case-insensitive (folded to lower case),
\* quoted ones are taken literally; function names are case-insensitive.  The harness writes the
\* base identifier b as b / upper(b) / "b"; in all three cases it denotes b.
\* ks: keyspace qualifier, ts: table, cs: column identifiers, as: alias identifiers, fs: functions.
Plain == [ks |-> "lower", ts |-> "lower", cs |-> "lower", as |-> "lower", fs |-> "lower"]
SpellVariants ==
  { [Plain EXCEPT !.ks = "upper"], [Plain EXCEPT !.ks = "quoted"],
    [Plain EXCEPT !.ts = "upper"], [Plain EXCEPT !.ts = "quoted"],
    [Plain EXCEPT !.cs = "upper"], [Plain EXCEPT !.cs = "quoted"],
    [Plain EXCEPT !.as = "upper"], [Plain EXCEPT !.as = "quoted"],
    [Plain EXCEPT !.fs = "upper"],
    [ks |-> "upper", ts |-> "upper", cs |-> "upper", as |-> "upper", fs |-> "upper"],
    [ks |-> "quoted", ts |-> "quoted", cs |-> "quoted", as |-> "quoted", fs |-> "upper"] }
Denotes(base, spelling) == base

Singles(t, dse) == {<<Star>>} \cup {<<s>> : s \in FullAlphabet(t, dse)}
RowsFor(t, e) ==
  { [kind |-> "sel", table |-> t, dse |-> e, sels |-> l, sp |-> Plain] : l \in SelLists(t, e) }
  \cup
  { [kind |-> "sel", table |-> t, dse |-> e, sels |-> l, sp |-> s] : l \in Singles(t, e), s \in SpellVariants }
SelRows == UNION { UNION { RowsFor(t, e) : e \in BOOLEAN } : t \in Tables }

Legal(r) == /\ \A j \in DOMAIN r.sels : r.sels[j] = Star => Len(r.sels) = 1   \* `*` only on its own
            /\ \A j \in DOMAIN r.sels : r.sels[j] \in FullAlphabet(r.table, r.dse) \cup {Star}
            /\ (r.sp # Plain => Len(r.sels) = 1)

AliasName(j) == "al" \o ToString(j)
IsAgg(s) == s.k \in {"count_star", "count_col", "alias_count_star"}
\* one selector -> the output columns it stands for:
\*   name  "" = not asserted (function selectors without alias); type "" = not asserted
Out(r, j) ==
  LET s == r.sels[j] IN
  CASE s.k = "id"    -> <<[name |-> Denotes(s.c, r.sp.cs), src |-> s.c, type |-> Type(s.c), fn |-> ""]>>
    [] s.k = "alias" -> <<[name |-> Denotes(AliasName(j), r.sp.as), src |-> s.c, type |-> Type(s.c), fn |-> ""]>>
    [] s.k = "star"  -> [i \in DOMAIN StarOrder(r.table, r.dse) |->
                           [name |-> StarOrder(r.table, r.dse)[i], src |-> StarOrder(r.table, r.dse)[i],
                            type |-> Type(StarOrder(r.table, r.dse)[i]), fn |-> ""]]
    [] s.k = "count_star"       -> <<[name |-> "", src |-> "", type |-> "", fn |-> "count"]>>
    [] s.k = "count_col"        -> <<[name |-> "", src |-> "", type |-> "", fn |-> "count"]>>
    [] s.k = "alias_count_star" -> <<[name |-> Denotes(AliasName(j), r.sp.as), src |-> "", type |-> "", fn |-> "count"]>>
    [] s.k = "now"              -> <<[name |-> "", src |-> "", type |-> "", fn |-> "now"]>>
    [] s.k = "alias_now"        -> <<[name |-> Denotes(AliasName(j), r.sp.as), src |-> "", type |-> "", fn |-> "now"]>>
RECURSIVE Flat(_, _)
Flat(r, j) == IF j > Len(r.sels) THEN <<>> ELSE Out(r, j) \o Flat(r, j + 1)
Project(r) == Flat(r, 1)
HasAgg(r) == \E j \in DOMAIN r.sels : IsAgg(r.sels[j])

IsSel == row.kind = "sel"
ProjectionShape == IsSel => LET out == Project(row) IN
  /\ (row.sels = <<Star>> =>
        /\ Len(out) = Cardinality(Catalogue(row.table, row.dse))
        /\ {out[i].name : i \in DOMAIN out} = Catalogue(row.table, row.dse)
        /\ \A i, j \in DOMAIN out : i # j => out[i].name # out[j].name)
  /\ (row.sels # <<Star>> =>
        /\ Len(out) = Len(row.sels)
        /\ \A j \in DOMAIN out :
             LET s == row.sels[j] IN
             /\ (s.k \in {"id", "alias", "count_col"} => s.c \in Catalogue(row.table, row.dse))
             /\ (s.k = "id" => out[j].name = s.c /\ out[j].src = s.c)
             /\ (s.k = "alias" => out[j].name = AliasName(j) /\ out[j].src = s.c)
             /\ (s.k \in {"alias_count_star", "alias_now"} => out[j].name = AliasName(j))
             /\ (out[j].fn = "" <=> s.k \in {"id", "alias"})
             /\ (out[j].fn = "" => out[j].type = Type(out[j].src))
             /\ out[j].name \notin (Catalogue(row.table, row.dse) \ {s.c}))
  /\ (HasAgg(row) <=> \E j \in DOMAIN out : out[j].fn = "count")
\* dse_version is advertised exactly in front of a DSE backend
LegalRow == IsSel => Legal(row)
DseColumn == IsSel => ("dse_version" \in Catalogue(row.table, row.dse) <=> row.dse)

SelExport(r) ==
  LET out == Project(r) IN
  [kind |-> "sel", table |-> r.table, dse |-> r.dse, sels |-> r.sels, sp |-> r.sp,
   out |-> out, agg |-> HasAgg(r), star |-> (r.sels = <<Star>>),
   sources |-> [i \in DOMAIN out |-> IF out[i].src = "" THEN "" ELSE Source(out[i].src)]]

-----------------------------------------------------------------------------
InitCfg == row \in CfgRows
InitSel == row \in SelRows
Next == UNCHANGED row
SpecCfg == InitCfg /\ [][Next]_row
SpecSel == InitSel /\ [][Next]_row

ExportRow == Export =>
  IF IsCfg THEN PrintT(<<"CFG", ToJson(CfgExport(row))>>) ELSE PrintT(<<"SEL", ToJson(SelExport(row))>>)
=============================================================================
