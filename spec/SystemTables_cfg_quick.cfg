SPECIFICATION SpecCfg
CONSTANTS
  MaxPeers = 4
  BigSizes = {10, 16}
  MaxSel = 1
  Export = TRUE
INVARIANTS OneLocalRow PeersAreOthers TokensDistinct HostIdsInjective Agreement ExportRow
CHECK_DEADLOCK FALSE
