SPECIFICATION SpecCfg
CONSTANTS
  MaxPeers = 5
  BigSizes = {10, 12, 16}
  MaxSel = 1
  Export = TRUE
INVARIANTS OneLocalRow PeersAreOthers TokensDistinct HostIdsInjective Agreement ExportRow
CHECK_DEADLOCK FALSE
