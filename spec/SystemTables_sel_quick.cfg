SPECIFICATION SpecSel
CONSTANTS
  MaxPeers = 1
  BigSizes = {}
  MaxSel = 2
  Export = TRUE
INVARIANTS LegalRow ProjectionShape DseColumn ExportRow
CHECK_DEADLOCK FALSE
