------------------------------- MODULE Topology -------------------------------
(* Tracking of the backend topology and healing of the control connection             *)
(* (proxycore/cluster.go stayConnected / refreshHosts / mergeHosts / reconnect,        *)
(*  proxycore/session.go OnEvent, proxycore/connpool.go stayConnected).                *)
(*                                                                                     *)
(* Two parties.  The environment owns the backend's truth (nodes listed in the peers   *)
(* table, nodes that are up) and applies faults.  The proxy is the loop of             *)
(* Cluster.stayConnected: it holds a control connection to one host, receives the      *)
(* backend's events on it, debounces topology / status-up events with the refresh      *)
(* timer (pendingRefresh), re-reads the system tables when the timer fires and when the *)
(* control connection is re-established, and fails over round-robin among the hosts it  *)
(* knows.  One action per branch of that select loop.                                  *)
(*                                                                                     *)
(* Property (C16): whenever the proxy is quiescent - control connection up, no event   *)
(* unprocessed, no refresh outstanding - the hosts it routes to are exactly the nodes   *)
(* that are listed and up; and it becomes quiescent after the last fault (liveness).    *)
(*                                                                                     *)
(* Binding: TLC exports every fault sequence together with the proxy state each fault   *)
(* was applied in (settled / refresh pending / control connection just lost); the       *)
(* driver applies the sequence to the real proxy with that timing and compares the set  *)
(* of nodes that receive requests with Routed after every settled step.                 *)
EXTENDS Naturals, Sequences, FiniteSets, TLC, Json

CONSTANTS N, InitUp, MaxFaults, FaultKinds,
          TimerStoppedOnClose     \* hazard switch (FALSE = the code as it should be): losing the control connection
                                  \* stops the refresh timer but leaves pendingRefresh set

VARIABLES listed, up,     \* backend truth
          view,           \* hosts the proxy knows (Cluster.hosts)
          ctrl,           \* host of the control connection, "none" while there is none
          evq,            \* events received and not yet processed (Cluster.events)
          pend, timer,    \* pendingRefresh; refreshTimer: off | armed | fired
          hist            \* the faults applied so far, with the mode each was applied in (export)
vars == <<listed, up, view, ctrl, evq, pend, timer, hist>>

H(i) == "h" \o ToString(i)
All == {H(i) : i \in 1..N}
SetToSeq(S) == LET RECURSIVE B(_) B(i) == IF i > N THEN <<>> ELSE (IF H(i) \in S THEN <<H(i)>> ELSE <<>>) \o B(i + 1) IN B(1)

Init == /\ listed = {H(i) : i \in 1..InitUp} /\ up = {H(i) : i \in 1..InitUp}
        /\ view = listed /\ ctrl = H(1) /\ evq = <<>> /\ pend = FALSE /\ timer = "off"
        /\ hist = <<[a |-> "init", n |-> InitUp, mode |-> "settled"]>>

Routed == listed \cap up                     \* what the proxy must route to once it has converged
ProxyRoutes == view \cap up                  \* what it routes to (pools to nodes that are down hold no connection)
Quiescent == ctrl # "none" /\ evq = <<>> /\ timer = "off"

-----------------------------------------------------------------------------
(* The proxy: Cluster.stayConnected                                                *)

\* case event := <-c.events
PEvent ==
    /\ ctrl # "none" /\ evq # <<>>
    /\ evq' = Tail(evq)
    /\ IF Head(evq) \in {"topology", "status_up"} /\ ~pend
       THEN timer' = "armed" /\ pend' = TRUE
       ELSE UNCHANGED <<timer, pend>>
    /\ UNCHANGED <<listed, up, view, ctrl, hist>>

\* the refresh window elapses
PTimerFires == timer = "armed" /\ timer' = "fired" /\ UNCHANGED <<listed, up, view, ctrl, evq, pend, hist>>

\* a node always lists itself in its own system.local: the tables read through host c
TablesVia(c) == listed \cup {c}

\* case <-refreshTimer.C: refreshHosts (queryHosts + mergeHosts) on the control connection
PRefresh ==
    /\ ctrl # "none" /\ timer = "fired"
    /\ view' = TablesVia(ctrl) /\ pend' = FALSE /\ timer' = "off"
    /\ UNCHANGED <<listed, up, ctrl, evq, hist>>

\* case <-connectTimer.C: reconnect() to the next known host that accepts; connect re-reads the tables
PReconnect ==
    /\ ctrl = "none"
    /\ \E h \in view \cap up :
        /\ ctrl' = h /\ view' = TablesVia(h)
    /\ UNCHANGED <<listed, up, evq, pend, timer, hist>>

Proxy == PEvent \/ PTimerFires \/ PRefresh \/ PReconnect

-----------------------------------------------------------------------------
(* The environment                                                                  *)

\* the mode a fault is applied in, as far as the driver can steer it
Mode == IF Quiescent THEN "settled"
        ELSE IF ctrl # "none" /\ evq = <<>> /\ timer = "armed" THEN "pending"     \* inside the refresh window
        ELSE IF ctrl = "none" THEN "down"                                        \* control connection just lost
        ELSE "other"

Rec(a, h) == [a |-> a, h |-> h, mode |-> Mode, routed |-> SetToSeq(Routed'), listed |-> SetToSeq(listed'), up |-> SetToSeq(up')]

\* the event the backend announces for a fault (to the registered control connection, if there is one)
EventOf(a) == CASE a \in {"add", "remove", "unlist"} -> "topology" [] a = "start" -> "status_up" [] a = "stop" -> "status_down" [] OTHER -> "none"
\* faults that take the control connection away when they hit its host
ClosesCtrl(a, h) == \/ a \in {"dropctrl", "dropall"}
                    \/ (a \in {"remove", "stop", "restart", "mute"} /\ h = ctrl)

Fault(a, h) ==
    /\ a \in FaultKinds /\ Len(hist) <= MaxFaults
    /\ Mode \in {"settled", "pending", "down"}
    \* the proxy only reconnects to hosts it knows: some host it knows stays up and listed
    /\ a \in {"remove", "unlist", "stop"} => Cardinality((Routed \cap view) \ {h}) >= 1
    \* an unlisted node that is still running lists itself: while the proxy still knows such a node the control
    \* connection is not taken away (it could fail over to that node and keep it; a decommissioned node of a real
    \* cluster shuts down instead)
    /\ ClosesCtrl(a, h) => (view \cap up) \subseteq listed
    /\ CASE a = "add"     -> h \notin listed /\ listed' = listed \cup {h} /\ up' = up \cup {h}
         [] a = "remove"  -> h \in listed /\ listed' = listed \ {h} /\ up' = up \ {h}
         \* a node that is unlisted but still running keeps listing itself: the change is only visible through another node
         [] a = "unlist"  -> h \in listed /\ h \in up /\ ctrl \notin {h, "none"} /\ listed' = listed \ {h} /\ UNCHANGED up
         [] a = "stop"    -> h \in up /\ up' = up \ {h} /\ UNCHANGED listed
         [] a = "start"   -> h \in listed \ up /\ up' = up \cup {h} /\ UNCHANGED listed
         [] a \in {"restart", "droppooled", "mute"} -> h \in Routed /\ UNCHANGED <<listed, up>>
         [] a \in {"dropctrl", "dropall"} -> h = H(1) /\ ctrl # "none" /\ UNCHANGED <<listed, up>>
    /\ IF ClosesCtrl(a, h)
       THEN /\ ctrl' = "none"
            /\ timer' = IF TimerStoppedOnClose THEN "off" ELSE timer
            /\ UNCHANGED evq                           \* events already received stay queued in the proxy
       ELSE /\ UNCHANGED <<ctrl, timer>>
            /\ evq' = IF ctrl # "none" /\ EventOf(a) # "none" THEN Append(evq, EventOf(a)) ELSE evq
    /\ UNCHANGED <<view, pend>>
    /\ hist' = Append(hist, Rec(a, h))

Env == \E a \in FaultKinds : \E h \in All : Fault(a, h)
Next == Env \/ Proxy
Spec == Init /\ [][Next]_vars /\ WF_vars(Proxy)

-----------------------------------------------------------------------------
\* sanity of the generator: some node always remains to serve requests
SomeoneServes == Routed # {}
\* C16: a quiescent proxy routes exactly to the nodes that are listed and up
QuiescentConverged == Quiescent => ProxyRoutes = Routed
\* C16: nodes that are up but no longer listed stop receiving requests
ExpectedExcludesUnlisted == \A h \in up \ listed : h \notin Routed
\* C16 (liveness): after the last fault the proxy becomes quiescent and stays so
Settles == <>[]Quiescent

View == <<listed, up, view, ctrl, evq, pend, timer, Len(hist)>>
ExportInv == (Len(hist) = MaxFaults + 1 /\ Quiescent) => PrintT(<<"BEH", ToJson(hist)>>)
\* with the hazard switch on: the fault sequences after which a proxy with that defect has not converged - the
\* sequences that tell a correct implementation from one with the defect; they are replayed first
ExportHazard == (Quiescent /\ ProxyRoutes # Routed) => PrintT(<<"HAZ", ToJson(hist)>>)
=============================================================================
