------------------------------- MODULE Topology -------------------------------
(* Tracking of the backend topology and healing of backend connections               *)
(* (proxycore/cluster.go stayConnected / refreshHosts / mergeHosts / reconnect,        *)
(*  proxycore/session.go OnEvent, proxycore/connpool.go stayConnected).                *)
(*                                                                                     *)
(* Observable level: the backend's truth is the set of nodes listed in its peers        *)
(* table and the set of nodes that are up; the environment applies faults; once the     *)
(* environment is quiet for the refresh window plus the reconnect delay the proxy must   *)
(* have converged: it routes requests exactly to the nodes that are listed and up, it    *)
(* has a control connection and reports no outage.  TLC enumerates every fault sequence  *)
(* up to the bound together with the expected converged state after each fault; the      *)
(* driver applies each sequence to the real proxy and compares after each step.          *)
EXTENDS Naturals, Sequences, FiniteSets, TLC, Json

CONSTANTS N, InitUp, MaxFaults, FaultKinds

VARIABLES listed, up, hist
vars == <<listed, up, hist>>
H(i) == "h" \o ToString(i)
All == {H(i) : i \in 1..N}
SetToSeq(S) == LET RECURSIVE B(_) B(i) == IF i > N THEN <<>> ELSE (IF H(i) \in S THEN <<H(i)>> ELSE <<>>) \o B(i + 1) IN B(1)

Init == /\ listed = {H(i) : i \in 1..InitUp} /\ up = {H(i) : i \in 1..InitUp}
        /\ hist = <<[a |-> "init", n |-> InitUp]>>

Routed == listed \cap up
Rec(a, h) == [a |-> a, h |-> h, routed |-> SetToSeq(Routed'), listed |-> SetToSeq(listed'), up |-> SetToSeq(up')]

Fault(a, h) ==
    /\ a \in FaultKinds /\ Len(hist) <= MaxFaults
    /\ CASE a = "add"     -> h \notin listed /\ listed' = listed \cup {h} /\ up' = up \cup {h}
         [] a = "remove"  -> h \in listed /\ Cardinality(Routed \ {h}) >= 1 /\ listed' = listed \ {h} /\ up' = up \ {h}
         [] a = "unlist"  -> h \in listed /\ h \in up /\ Cardinality(Routed \ {h}) >= 1 /\ listed' = listed \ {h} /\ UNCHANGED up
         [] a = "stop"    -> h \in up /\ Cardinality(Routed \ {h}) >= 1 /\ up' = up \ {h} /\ UNCHANGED listed
         [] a = "start"   -> h \in listed \ up /\ up' = up \cup {h} /\ UNCHANGED listed
         [] a \in {"restart", "droppooled", "mute"} -> h \in Routed /\ UNCHANGED <<listed, up>>
         [] a \in {"dropctrl", "dropall"} -> h = H(1) /\ UNCHANGED <<listed, up>>
    /\ hist' = Append(hist, Rec(a, h))

Next == \E a \in FaultKinds : \E h \in All : Fault(a, h)
Spec == Init /\ [][Next]_vars

\* sanity of the generator: some node always remains to serve requests, and the expected routing set is the truth
SomeoneServes == Routed # {}
\* nodes that are up but no longer listed must stop receiving requests
ExpectedExcludesUnlisted == \A h \in up \ listed : h \notin Routed
ExportInv == (Len(hist) = MaxFaults + 1 \/ ~ENABLED Next) => PrintT(<<"BEH", ToJson(hist)>>)
=============================================================================
