------------------------------- MODULE Topology -------------------------------
(* Tracking of the backend topology and healing of the control connection             *)
(* (proxycore/cluster.go stayConnected / refreshHosts / mergeHosts / reconnect,        *)
(*  proxycore/session.go OnEvent, proxycore/connpool.go stayConnected).                *)
(*                                                                                     *)
(* Two parties.  The environment owns the backend's truth (nodes listed in the peers   *)
(* table, nodes that are up) and applies faults.  The proxy is the loop of             *)
(* Cluster.stayConnected: it holds a control connection to one host, receives the      *)
(* backend's events on it, debounces topology / status-up events with the refresh      *)
(* timer (pendingRefresh), re-reads the system tables when the timer fires and when the *)
(* control connection is re-established, and fails over round-robin among the hosts it  *)
(* knows.  One action per branch of that select loop.                                  *)
(*                                                                                     *)
(* Property (C16): whenever the proxy is quiescent - control connection up, no event   *)
(* unprocessed, no refresh outstanding - the hosts it routes to are exactly the nodes   *)
(* that are listed and up; and it becomes quiescent after the last fault (liveness).    *)
(*                                                                                     *)
(* Binding: TLC exports every fault sequence together with the proxy state each fault   *)
(* was applied in (settled / refresh pending / control connection just lost); the       *)
(* driver applies the sequence to the real proxy with that timing and compares the set  *)
(* of nodes that receive requests with Routed after every settled step.                 *)
EXTENDS TopologyCore, TLC, Json

CONSTANTS N, InitUp, MaxFaults

VARIABLES hist            \* the faults applied so far, with the mode each was applied in (export)
vars == <<listed, up, view, ctrl, evq, pend, timer, hist>>

H(i) == "h" \o ToString(i)
All == {H(i) : i \in 1..N}
ASSUME Hosts = All /\ FirstHost = H(1)
SetToSeq(S) == LET RECURSIVE B(_) B(i) == IF i > N THEN <<>> ELSE (IF H(i) \in S THEN <<H(i)>> ELSE <<>>) \o B(i + 1) IN B(1)

Init == /\ listed = {H(i) : i \in 1..InitUp} /\ up = {H(i) : i \in 1..InitUp}
        /\ view = listed /\ ctrl = H(1) /\ evq = <<>> /\ pend = FALSE /\ timer = "off"
        /\ hist = <<[a |-> "init", n |-> InitUp, mode |-> "settled"]>>

\* the mode a fault is applied in, as far as the driver can steer it
Mode == IF Quiescent THEN "settled"
        ELSE IF ctrl # "none" /\ evq = <<>> /\ timer = "armed" THEN "pending"     \* inside the refresh window
        ELSE IF ctrl = "none" THEN "down"                                        \* control connection just lost
        ELSE "other"

Rec(a, h) == [a |-> a, h |-> h, mode |-> Mode, routed |-> SetToSeq(Routed'), listed |-> SetToSeq(listed'), up |-> SetToSeq(up')]

Fault(a, h) ==
    /\ Len(hist) <= MaxFaults
    /\ Mode \in {"settled", "pending", "down"}
    /\ CoreFault(a, h)
    /\ hist' = Append(hist, Rec(a, h))

Env == \E a \in FaultKinds : \E h \in All : Fault(a, h)
ProxyStep == Proxy /\ UNCHANGED hist
Next == Env \/ ProxyStep
Spec == Init /\ [][Next]_vars /\ WF_vars(ProxyStep)

-----------------------------------------------------------------------------
\* C16 (liveness): after the last fault the proxy becomes quiescent and stays so
Settles == <>[]Quiescent

\* C16: nothing an announcement does keeps a due refresh from running (with EventsBlockRefresh, defect D23, an event
\* that waits in the queue does: the refresh fails instead and the control connection is closed)
RefreshNotBlockedByEvents == (ctrl # "none" /\ timer = "fired") => ENABLED PRefresh

ExportInv == (Len(hist) = MaxFaults + 1 /\ Quiescent) => PrintT(<<"BEH", ToJson(hist)>>)
\* with the hazard switch on: the fault sequences after which a proxy with that defect has not converged - the
\* sequences that tell a correct implementation from one with the defect; they are replayed first
ExportHazard == (Quiescent /\ ProxyRoutes # Routed) => PrintT(<<"HAZ", ToJson(hist)>>)
=============================================================================
