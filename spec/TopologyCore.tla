---------------------------- MODULE TopologyCore ----------------------------
(* The cluster loop of the proxy and its environment, without the export machinery.  *)
(* See Topology.tla (which extends this module with the history used for the export  *)
(* and with the mode filter of the driver) for the description.  The annotations are  *)
(* Apalache types: TopologyInd.tla proves the convergence invariant inductively.      *)
EXTENDS Naturals, Sequences, FiniteSets

CONSTANTS
    \* @type: Set(Str);
    Hosts,
    \* @type: Set(Str);
    FaultKinds,
    \* @type: Str;
    FirstHost,              \* the host under which dropctrl / dropall are recorded
    \* @type: Bool;
    TimerStoppedOnClose,    \* hazard switch (FALSE = the code as it should be): losing the control connection
                            \* stops the refresh timer but leaves pendingRefresh set
    \* @type: Bool;
    EventsBlockRefresh      \* hazard switch (defect D23, repaired): an event that waits to be handed to the loop blocks
                            \* the control connection's reader, so the refresh gets no answer, fails, and the control
                            \* connection is closed

VARIABLES
    \* @type: Set(Str);
    listed,         \* backend truth: nodes in the peers tables
    \* @type: Set(Str);
    up,             \* backend truth: nodes that are running
    \* @type: Set(Str);
    view,           \* hosts the proxy knows (Cluster.hosts)
    \* @type: Str;
    ctrl,           \* host of the control connection, "none" while there is none
    \* @type: Seq(Str);
    evq,            \* events received and not yet processed (Cluster.events)
    \* @type: Bool;
    pend,           \* pendingRefresh
    \* @type: Str;
    timer           \* refreshTimer: off | armed | fired
cvars == <<listed, up, view, ctrl, evq, pend, timer>>

Routed == listed \cap up                     \* what the proxy must route to once it has converged
ProxyRoutes == view \cap up                  \* what it routes to (pools to nodes that are down hold no connection)
Quiescent == ctrl # "none" /\ evq = <<>> /\ timer = "off"

-----------------------------------------------------------------------------
(* The proxy: Cluster.stayConnected                                                *)

\* case event := <-c.events
PEvent ==
    /\ ctrl # "none" /\ evq # <<>>
    /\ evq' = Tail(evq)
    /\ IF Head(evq) \in {"topology", "status_up"} /\ ~pend
       THEN timer' = "armed" /\ pend' = TRUE
       ELSE UNCHANGED <<timer, pend>>
    /\ UNCHANGED <<listed, up, view, ctrl>>

\* the refresh window elapses
PTimerFires == timer = "armed" /\ timer' = "fired" /\ UNCHANGED <<listed, up, view, ctrl, evq, pend>>

\* a node always lists itself in its own system.local: the tables read through host c
TablesVia(c) == listed \cup {c}

\* case <-refreshTimer.C: refreshHosts (queryHosts + mergeHosts) on the control connection
PRefresh ==
    /\ ctrl # "none" /\ timer = "fired"
    /\ (EventsBlockRefresh => evq = <<>>)
    /\ view' = TablesVia(ctrl) /\ pend' = FALSE /\ timer' = "off"
    /\ UNCHANGED <<listed, up, ctrl, evq>>
\* (hazard only) the refresh times out behind a waiting event; the loop closes the control connection
PRefreshBlocked ==
    /\ EventsBlockRefresh /\ ctrl # "none" /\ timer = "fired" /\ evq # <<>>
    /\ ctrl' = "none" /\ evq' = <<>> /\ pend' = FALSE /\ timer' = "off"
    /\ UNCHANGED <<listed, up, view>>

\* case <-connectTimer.C: reconnect() to the next known host that accepts; connect re-reads the tables
PReconnect ==
    /\ ctrl = "none"
    /\ \E h \in view \cap up :
        /\ ctrl' = h /\ view' = TablesVia(h)
    /\ UNCHANGED <<listed, up, evq, pend, timer>>

Proxy == PEvent \/ PTimerFires \/ PRefresh \/ PRefreshBlocked \/ PReconnect

-----------------------------------------------------------------------------
(* The environment                                                                  *)

\* the event the backend announces for a fault (to the registered control connection, if there is one)
EventOf(a) == IF a \in {"add", "remove", "unlist"} THEN "topology"
              ELSE IF a = "start" THEN "status_up" ELSE IF a = "stop" THEN "status_down" ELSE "none"
\* faults that take the control connection away when they hit its host
ClosesCtrl(a, h) == \/ a \in {"dropctrl", "dropall"}
                    \/ (a \in {"remove", "stop", "restart", "mute"} /\ h = ctrl)

TruthChange(a, h) ==
    \/ a = "add"     /\ h \notin listed /\ listed' = listed \cup {h} /\ up' = up \cup {h}
    \/ a = "remove"  /\ h \in listed /\ listed' = listed \ {h} /\ up' = up \ {h}
    \* a node that is unlisted but still running keeps listing itself: the change is only visible through another node
    \/ a = "unlist"  /\ h \in listed /\ h \in up /\ ctrl \notin {h, "none"} /\ listed' = listed \ {h} /\ UNCHANGED up
    \/ a = "stop"    /\ h \in up /\ up' = up \ {h} /\ UNCHANGED listed
    \/ a = "start"   /\ h \in listed \ up /\ up' = up \cup {h} /\ UNCHANGED listed
    \/ a \in {"restart", "droppooled", "mute"} /\ h \in Routed /\ UNCHANGED <<listed, up>>
    \/ a \in {"dropctrl", "dropall"} /\ h = FirstHost /\ ctrl # "none" /\ UNCHANGED <<listed, up>>

CoreFault(a, h) ==
    /\ a \in FaultKinds
    \* the proxy only reconnects to hosts it knows: some host it knows stays up and listed
    /\ a \in {"remove", "unlist", "stop"} => Cardinality((Routed \cap view) \ {h}) >= 1
    \* an unlisted node that is still running lists itself: while the proxy still knows such a node the control
    \* connection is not taken away (it could fail over to that node and keep it; a decommissioned node of a real
    \* cluster shuts down instead)
    /\ ClosesCtrl(a, h) => (view \cap up) \subseteq listed
    /\ TruthChange(a, h)
    /\ IF ClosesCtrl(a, h)
       THEN /\ ctrl' = "none"
            /\ timer' = IF TimerStoppedOnClose THEN "off" ELSE timer
            /\ UNCHANGED evq                           \* events already received stay queued in the proxy
       ELSE /\ UNCHANGED <<ctrl, timer>>
            /\ evq' = IF ctrl # "none" /\ EventOf(a) # "none" THEN Append(evq, EventOf(a)) ELSE evq
    /\ UNCHANGED <<view, pend>>

-----------------------------------------------------------------------------
\* sanity of the generator: some node always remains to serve requests
SomeoneServes == Routed # {}
\* C16: a quiescent proxy routes exactly to the nodes that are listed and up
QuiescentConverged == Quiescent => ProxyRoutes = Routed
\* C16: nodes that are up but no longer listed stop receiving requests
ExpectedExcludesUnlisted == \A h \in up \ listed : h \notin Routed
=============================================================================
