---------------------------- MODULE TopologyInd ----------------------------
(* Inductive proof (Apalache) that the cluster loop of TopologyCore.tla converges:    *)
(* IndInv is inductive for every number of faults and every interleaving (hosts: the   *)
(* constant set below; event queue bounded by MaxQ) and implies QuiescentConverged.    *)
(*   apalache-mc check --cinit=CInitConsts --init=IndInit --next=IndNext --inv=IndInv --length=1   (step)    *)
(*   apalache-mc check --cinit=CInitConsts --init=CInit --next=IndNext --inv=IndInv --length=0     (base)    *)
(*   apalache-mc check --cinit=CInitConsts --init=IndInit --next=IndNext --inv=QuiescentConverged --length=0 *)
(* With --cinit=CInitHazard the step must fail (the proof is sensitive to the hazard).  *)
EXTENDS TopologyCore, Apalache

CONSTANT
    \* @type: Int;
    MaxQ

CInitConsts ==
    /\ Hosts = {"h1", "h2", "h3", "h4"}
    /\ FaultKinds = {"add", "remove", "unlist", "stop", "start", "restart", "droppooled", "dropctrl", "dropall", "mute"}
    /\ FirstHost = "h1"
    /\ TimerStoppedOnClose = FALSE
    /\ EventsBlockRefresh = FALSE
    /\ MaxQ = 3

CInitHazard ==
    /\ Hosts = {"h1", "h2", "h3", "h4"}
    /\ FaultKinds = {"add", "remove", "unlist", "stop", "start", "restart", "droppooled", "dropctrl", "dropall", "mute"}
    /\ FirstHost = "h1"
    /\ TimerStoppedOnClose = TRUE
    /\ EventsBlockRefresh = FALSE
    /\ MaxQ = 3

Events == {"topology", "status_up", "status_down"}
Arming == {"topology", "status_up"}
HasArming == \E i \in DOMAIN evq : evq[i] \in Arming
Stale == ProxyRoutes # Routed

TypeOK ==
    /\ listed \subseteq Hosts /\ up \subseteq Hosts /\ view \subseteq Hosts
    /\ ctrl \in Hosts \cup {"none"}
    /\ Len(evq) <= MaxQ /\ \A i \in DOMAIN evq : evq[i] \in Events
    /\ pend \in BOOLEAN /\ timer \in {"off", "armed", "fired"}

IndInv ==
    /\ TypeOK
    \* pendingRefresh is set exactly while the refresh timer is running or has fired
    /\ pend <=> timer # "off"
    \* the control connection sits on a node the proxy knows, that is running and that is listed
    /\ ctrl # "none" => (ctrl \in view /\ ctrl \in up /\ ctrl \in listed)
    \* while there is no control connection every fail-over candidate is a listed node
    /\ ctrl = "none" => (view \cap up) \subseteq listed
    \* a stale view is always about to be repaired: by the reconnect, by the running refresh, or by an event that starts one
    /\ Stale => (ctrl = "none" \/ timer # "off" \/ HasArming)

\* an arbitrary state satisfying the invariant
IndInit ==
    /\ listed = Gen(4) /\ up = Gen(4) /\ view = Gen(4)
    /\ ctrl \in Hosts \cup {"none"}
    /\ evq = Gen(3)
    /\ pend \in BOOLEAN /\ timer \in {"off", "armed", "fired"}
    /\ IndInv

\* the real initial states (any non-empty set of running listed nodes, the control connection on one of them)
CInit ==
    /\ listed \in SUBSET Hosts /\ listed # {} /\ up = listed /\ view = listed
    /\ ctrl \in listed /\ evq = <<>> /\ pend = FALSE /\ timer = "off"

\* the queue is bounded in the proof: a fault that would overflow it is not taken
IndNext ==
    \/ Proxy
    \/ \E a \in FaultKinds : \E h \in Hosts : CoreFault(a, h) /\ Len(evq') <= MaxQ
=============================================================================
