SPECIFICATION Spec
CONSTANTS
  N = 3
  InitUp = 2
  MaxFaults = 3
  FaultKinds = {"add", "remove", "unlist", "stop", "start", "restart", "droppooled", "dropctrl", "dropall"}
  Hosts = {"h1", "h2", "h3"}
  FirstHost = "h1"
  TimerStoppedOnClose = TRUE
  EventsBlockRefresh = FALSE
INVARIANTS ExportHazard
CHECK_DEADLOCK FALSE
