SPECIFICATION Spec
CONSTANTS
  N = 4
  InitUp = 2
  MaxFaults = 4
  FaultKinds = {"add", "remove", "unlist", "stop", "start", "restart", "droppooled", "dropctrl", "dropall", "mute"}
  Hosts = {"h1", "h2", "h3", "h4"}
  FirstHost = "h1"
  TimerStoppedOnClose = FALSE
INVARIANTS SomeoneServes ExpectedExcludesUnlisted QuiescentConverged ExportInv
PROPERTY Settles
CHECK_DEADLOCK FALSE
