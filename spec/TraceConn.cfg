SPECIFICATION TraceSpec
INVARIANT Verdict
POSTCONDITION HighWater
CHECK_DEADLOCK FALSE
