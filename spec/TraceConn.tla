------------------------------ MODULE TraceConn ------------------------------
(* Validation of histories recorded from the real proxycore.Conn (driver vdrv-conn: callers of  *)
(* Write and Close, a scripted peer on the other end of the socket, a Receiver that logs) against *)
(* Conn.tla.  Logged: Call / Ret of Write and Close, the sender function of a message running in   *)
(* the writer (Sent), frames the peer has read (PeerRead), frames it sends, its going away,        *)
(* the Receiver's Receive outcomes and Closing calls, and the watchdog's findings (Stuck,          *)
(* Quiesce).  Channel operations, flushes and checkErr are not observable: TLC places them.        *)
EXTENDS Integers, Sequences, FiniteSets, TLC, Json
TraceLog == ndJsonDeserialize("trace.ndjson")
TraceCfg == JsonDeserialize("trace_cfg.json")
VARIABLES queue, wbuf, wire, nread, err, peerGone, inb, spc, wpc, rpc, accepted, closings,
          cl,       \* caller of Close -> "idle" | "called" | "fresh" | "already"
          nann,     \* number of Sent events consumed
          pos,      \* caller -> place of its current message in the order in which the writer ran the sender functions of
                    \*           this round (0: its sender function never ran); computed from the log itself by the driver
          nrun,     \* number of sender functions that ran in this round (from the Reset record)
          l
vars == <<queue, wbuf, wire, nread, err, peerGone, inb, spc, wpc, rpc, accepted, closings, cl, nann, pos, nrun, l>>
Callers == 1..TraceCfg.threads
C == INSTANCE Conn WITH Senders <- Callers, QCap <- TraceCfg.qcap, SockCap <- 1000000,
                        WriteIgnoresClose <- FALSE, WriteFailsWhenFull <- FALSE

TraceInit == C!CInit /\ cl = [t \in Callers |-> "idle"] /\ nann = 0 /\ pos = [t \in Callers |-> 0] /\ nrun = 0 /\ l = 1 /\ TLCSet(7, 0)

CallClose(t) == cl[t] = "idle" /\ cl' = [cl EXCEPT ![t] = "called"] /\ UNCHANGED <<queue, wbuf, wire, nread, err, peerGone, inb, spc, wpc, rpc, accepted, closings>>
HClose == \E t \in Callers : \E b \in BOOLEAN :
             /\ cl[t] = "called" /\ C!DoClose(b)
             /\ cl' = [cl EXCEPT ![t] = IF b THEN "fresh" ELSE "already"]
             /\ UNCHANGED <<nann, pos, nrun>>
RetClose(t, fresh) == cl[t] = (IF fresh THEN "fresh" ELSE "already") /\ cl' = [cl EXCEPT ![t] = "idle"]
                      /\ UNCHANGED <<queue, wbuf, wire, nread, err, peerGone, inb, spc, wpc, rpc, accepted, closings>>
(* the sender function of the next accepted message has started: the writer took it from the queue before *)
Sent(m) == /\ nann < Len(accepted) /\ accepted[nann + 1] = m
           /\ Len(wire) + Len(wbuf) > nann
           /\ nann' = nann + 1
           /\ UNCHANGED <<queue, wbuf, wire, nread, err, peerGone, inb, spc, wpc, rpc, accepted, closings>>
(* the watchdog found caller t still inside Write long after everything else came to rest *)
Stuck(t) == /\ spc[t].pc = "select" /\ ~C!IsClosed /\ Len(queue) >= TraceCfg.qcap
            /\ UNCHANGED <<queue, wbuf, wire, nread, err, peerGone, inb, spc, wpc, rpc, accepted, closings>>
(* the round is over: the connection was closed, every call has returned, recv.Closing was called once *)
Quiesce == /\ C!IsClosed /\ closings = 1 /\ \A t \in Callers : spc[t].pc = "idle" /\ cl[t] = "idle"
           /\ UNCHANGED <<queue, wbuf, wire, nread, err, peerGone, inb, spc, wpc, rpc, accepted, closings>>

Event(e) ==
    CASE e.ev = "Reset" -> C!CReset /\ cl' = [t \in Callers |-> "idle"] /\ nann' = 0 /\ pos' = [t \in Callers |-> 0] /\ nrun' = e.nrun
      [] e.ev = "Call" /\ e.op = "write" -> C!CallWrite(e.t, e.m) /\ pos' = [pos EXCEPT ![e.t] = e.pos] /\ UNCHANGED <<cl, nann, nrun>>
      [] e.ev = "Ret" /\ e.op = "write" ->
             /\ IF e.ok /\ pos[e.t] = 0
                THEN Len(accepted) >= nrun /\ C!WriteEnqueueRet(e.t)   \* queued behind everything the writer got to
                ELSE C!RetWrite(e.t, e.ok)
             /\ UNCHANGED <<cl, nann, pos, nrun>>
      [] e.ev = "Call" /\ e.op = "close" -> CallClose(e.t) /\ UNCHANGED <<nann, pos, nrun>>
      [] e.ev = "Ret" /\ e.op = "close" -> RetClose(e.t, e.ok) /\ UNCHANGED <<nann, pos, nrun>>
      [] e.ev = "Sent" -> Sent(e.m) /\ UNCHANGED <<cl, pos, nrun>>
      [] e.ev = "PeerRead" -> C!PeerRead(e.m) /\ UNCHANGED <<cl, nann, pos, nrun>>
      [] e.ev = "PeerSend" -> C!PeerSend /\ UNCHANGED <<cl, nann, pos, nrun>>
      [] e.ev = "PeerClose" -> C!PeerClose /\ UNCHANGED <<cl, nann, pos, nrun>>
      [] e.ev = "RecvOk" -> C!RReceive /\ UNCHANGED <<cl, nann, pos, nrun>>
      [] e.ev = "RecvErr" -> C!RFails(e.refused) /\ UNCHANGED <<cl, nann, pos, nrun>>
      [] e.ev = "Closing" -> C!RClosing /\ UNCHANGED <<cl, nann, pos, nrun>>
      [] e.ev = "Stuck" -> Stuck(e.t) /\ UNCHANGED <<cl, nann, pos, nrun>>
      [] e.ev = "Quiesce" -> Quiesce /\ UNCHANGED <<cl, nann, pos, nrun>>

(* Steps of the writer that cannot disable anything (the socket buffer is unbounded here) are taken as soon as they are     *)
(* enabled - the interleavings that differ only in when the buffered writer is flushed explain the same histories.            *)
(* While the peer is gone a write may still succeed or fail: then both are left open.                                          *)
Urgent == \/ (wpc \in {"coalesce", "flush"} /\ wbuf # <<>> /\ ~C!IsClosed /\ ~peerGone)
          \/ (wpc = "flush" /\ wbuf = <<>>)
          \/ (wpc = "coalesce" /\ queue = <<>> /\ ~C!IsClosed)
UrgentStep == (~peerGone /\ C!WEmit) \/ C!WFlushed \/ C!WDefault
(* the writer runs one sender function at a time: it takes the next message only after the previous one was announced *)
HiddenStep == \/ (\E s \in Callers : (pos[s] = Len(accepted) + 1 /\ C!WriteEnqueue(s)) \/ C!WriteClosed(s))
              \/ C!WSeesClosed \/ C!WFails \/ C!RCheckErr
              \/ (peerGone /\ C!WEmit)
              \/ (queue # <<>> /\ Len(wire) + Len(wbuf) = nann /\ C!WTake(Head(queue)))
TraceNext ==
    /\ l <= Len(TraceLog)
    /\ IF Urgent THEN UrgentStep /\ UNCHANGED <<cl, nann, pos, nrun, l>>
       ELSE \/ /\ Event(TraceLog[l]) /\ l' = l + 1
               /\ TLCSet(7, IF l > TLCGet(7) THEN l ELSE TLCGet(7))
            \/ /\ (HiddenStep /\ UNCHANGED <<cl, nann, pos, nrun>>) \/ HClose
               /\ l' = l
TraceSpec == TraceInit /\ [][TraceNext]_vars
Verdict == (l = Len(TraceLog) + 1) => PrintT(<<"VERDICT", ToJson([bad |-> <<>>, at |-> <<>>, consumed |-> l - 1])>>)
HighWater == PrintT(<<"HW", TLCGet(7)>>)
=============================================================================
