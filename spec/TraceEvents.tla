----------------------------- MODULE TraceEvents -----------------------------
(* Validation of recorded event-delivery traces against Events.tla. *)
EXTENDS Naturals, Sequences, FiniteSets, TLC, Json
TraceLog == ndJsonDeserialize("trace.ndjson")
VARIABLES cl, ev, bad, badAt, l
vars == <<cl, ev, bad, badAt, l>>
E == INSTANCE Events
Empty == [x \in {} |-> 0]
TraceInit == cl = Empty /\ ev = Empty /\ bad = <<>> /\ badAt = <<>> /\ l = 1 /\ TLCSet(7, 0)
\* an EVENT frame is matched to the most recent open backend event with the same content hash that the
\* client has not received yet, else to any event with that hash, else to none (0)
Target(e) ==
    LET same == {x \in DOMAIN ev : ev[x].h = e.h}
        fresh == {x \in same : e.c \notin ev[x].got}
        Max(S) == CHOOSE x \in S : \A y \in S : y <= x
        Min(S) == CHOOSE x \in S : \A y \in S : x <= y
    IN IF fresh # {} THEN Min(fresh) ELSE IF same # {} THEN Max(same) ELSE 0
Step(e) ==
    CASE e.ev = "Reset"   -> cl' = Empty /\ ev' = Empty /\ UNCHANGED bad
      [] e.ev = "Hello"   -> E!DoHello(e.c, e.ver)
      [] e.ev = "Register"    -> E!DoRegister(e.c, e.schema)
      [] e.ev = "RegisterAck" -> E!DoRegisterAck(e.c)
      [] e.ev = "Close"   -> E!DoClose(e.c)
      [] e.ev = "Emit"    -> E!DoEmit(e.id, e.kind, e.h, e.v4only)
      [] e.ev = "Recv"    -> E!DoRecv(e.c, Target(e), e.stream, Target(e) # 0, e.ver)
      [] e.ev = "Quiet"   -> E!DoQuiet
TraceNext ==
    /\ TLCSet(7, l) /\ l <= Len(TraceLog) /\ l' = l + 1
    /\ Step(TraceLog[l])
    /\ badAt' = IF Len(bad') > Len(bad) THEN Append(badAt, l) ELSE badAt
TraceSpec == TraceInit /\ [][TraceNext]_vars
Verdict == (l = Len(TraceLog) + 1) => PrintT(<<"VERDICT", ToJson([bad |-> bad, at |-> badAt, consumed |-> l - 1])>>)
HighWater == PrintT(<<"HW", TLCGet(7)>>)
=============================================================================
