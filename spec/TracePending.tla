------------------------------ MODULE TracePending ------------------------------
(* Validation of call / return histories recorded from the real pending-request table     *)
(* (proxycore.pendingRequests driven by concurrent goroutines) against Pending.tla.        *)
(* The container operations inside a call are not observable: between two logged events     *)
(* the calls in progress take their internal steps in any order, and TLC searches for an     *)
(* interleaving that explains every logged result.  A history for which there is none is     *)
(* not a behaviour of the specification.                                                     *)
(* Events: Reset(m) | Call(t, op, r|s) | Ret(t, op, s|r|seen)                                *)
EXTENDS Integers, Sequences, FiniteSets, TLC, Json
TraceLog == ndJsonDeserialize("trace.ndjson")
TraceCfg == JsonDeserialize("trace_cfg.json")
VARIABLES free, map, op, holds, taken, l
vars == <<free, map, op, holds, taken, l>>
P == INSTANCE Pending WITH MaxId <- TraceCfg.maxid, Threads <- 1..TraceCfg.threads, SplitSwap <- FALSE

TraceInit == P!PInit(1) /\ l = 1 /\ TLCSet(7, 0)

SetOf(q) == {q[i] : i \in DOMAIN q}
Event(e) ==
    CASE e.ev = "Reset" -> P!PReset(e.m)
      [] e.ev = "Call" /\ e.op = "store" -> P!CallStore(e.t, e.r)
      [] e.ev = "Call" /\ e.op = "lad" -> P!CallLad(e.t, e.s)
      [] e.ev = "Call" /\ e.op = "closing" -> P!CallClosing(e.t)
      [] e.ev = "Ret" /\ e.op = "store" -> P!RetStore(e.t, e.s)
      [] e.ev = "Ret" /\ e.op = "lad" -> P!RetLad(e.t, e.r)
      [] e.ev = "Ret" /\ e.op = "closing" -> P!RetClosing(e.t, SetOf(e.seen))

TraceNext ==
    /\ l <= Len(TraceLog)
    /\ \/ /\ Event(TraceLog[l]) /\ l' = l + 1
          /\ TLCSet(7, IF l > TLCGet(7) THEN l ELSE TLCGet(7))
       \/ /\ \E t \in 1..TraceCfg.threads : P!Internal(t)
          /\ l' = l
TraceSpec == TraceInit /\ [][TraceNext]_vars
Verdict == (l = Len(TraceLog) + 1) => PrintT(<<"VERDICT", ToJson([bad |-> <<>>, at |-> <<>>, consumed |-> l - 1])>>)
HighWater == PrintT(<<"HW", TLCGet(7)>>)
=============================================================================
