------------------------------ MODULE TracePool ------------------------------
(* Validation of the reconnect events recorded at the hooks (slot.fill / slot.clear /   *)
(* slot.delay of every pool slot, ctrl.delay / outage of the control connection) against *)
(* Pool.tla.  Events (normalised by checks/c16.py): Reset, Fill(key), Clear(key),        *)
(* Delay(key, us, w).                                                                    *)
EXTENDS Naturals, Sequences, FiniteSets, TLC, Json
TraceLog == ndJsonDeserialize("trace.ndjson")
TraceCfg == JsonDeserialize("trace_cfg.json")
VARIABLES slot, bad, badAt, l
vars == <<slot, bad, badAt, l>>
P == INSTANCE Pool WITH BaseUs <- TraceCfg.base_us, MaxUs <- TraceCfg.max_us, BaseLog2 <- TraceCfg.base_log2,
                        ConnectUs <- TraceCfg.connect_us, SlackUs <- TraceCfg.slack_us
Empty == [x \in {} |-> 0]
TraceInit == slot = Empty /\ bad = <<>> /\ badAt = <<>> /\ l = 1 /\ TLCSet(7, 0)
Step(e) ==
    CASE e.ev = "Reset" -> slot' = Empty /\ UNCHANGED bad
      [] e.ev = "Fill"  -> P!DoFill(e.key)
      [] e.ev = "Clear" -> P!DoClear(e.key)
      [] e.ev = "Delay" -> P!DoDelay(e.key, e.us, e.w)
TraceNext ==
    /\ TLCSet(7, l) /\ l <= Len(TraceLog) /\ l' = l + 1
    /\ Step(TraceLog[l])
    /\ badAt' = IF Len(bad') > Len(bad) THEN Append(badAt, l) ELSE badAt
TraceSpec == TraceInit /\ [][TraceNext]_vars
Verdict == (l = Len(TraceLog) + 1) => PrintT(<<"VERDICT", ToJson([bad |-> bad, at |-> badAt, consumed |-> l - 1])>>)
HighWater == PrintT(<<"HW", TLCGet(7)>>)
=============================================================================
