--------------------------- MODULE TraceRequestObs ---------------------------
(* Validation of traces recorded from the real proxy against RequestObs.          *)
(* The log (NDJSON, normalised by vlib/reqtrace.py: small integer ids, outcome     *)
(* classes) is consumed one event per step; every action of RequestObs is total,   *)
(* so the whole log is always consumed and the verdict is the content of `bad`     *)
(* in the last state, printed as a VERDICT line.  Several traces are concatenated  *)
(* with Reset events.                                                              *)
EXTENDS Naturals, Sequences, FiniteSets, TLC, Json

TraceLog == ndJsonDeserialize("trace.ndjson")
TraceCfg == JsonDeserialize("trace_cfg.json")

VARIABLES rq, conn, out, bad, l,
          tomb,   \* requests that were answered and garbage-collected from rq (long traces)
          badAt   \* log index of each violation record

O == INSTANCE RequestObs WITH HostOrder <- TraceCfg.hosts,
                              NumConns <- TraceCfg.numconns,
                              StreamLimit <- TraceCfg.streamlimit,
                              ReprepareFailForwards <- TraceCfg.reprepare_fail_forwards,
                              RetrySameSpins <- TraceCfg.retry_same_spins

vars == <<rq, conn, out, bad, l, badAt, tomb>>

Empty == [x \in {} |-> 0]

TraceInit == /\ rq = Empty /\ conn = Empty /\ out = {} /\ bad = <<>> /\ l = 1 /\ badAt = <<>> /\ tomb = {}
             /\ TLCSet(7, 0)

Ev == TraceLog[l]
Is(name) == l <= Len(TraceLog) /\ Ev.ev = name

Max(S) == CHOOSE x \in S : \A y \in S : y <= x

ReplyTarget(e) ==
    LET byTok == {r \in DOMAIN rq : rq[r].tok = e.t}
        byStream == {r \in DOMAIN rq : rq[r].c = e.c /\ rq[r].s = e.s}
        open == {r \in byStream : rq[r].nrep = 0}
    IN IF e.t # "" /\ byTok # {} THEN Max(byTok)
       ELSE IF open # {} THEN Max(open)
       ELSE IF byStream # {} THEN Max(byStream) ELSE 0

AnswerTarget(e) ==
    LET xs == {x \in out : x.b = e.b /\ x.bs = e.bs}
    IN IF xs # {} THEN (CHOOSE x \in xs : TRUE).r ELSE 0

\* a PREPARE that reaches the backend on behalf of a request waiting for a re-prepare on that connection; the hook's
\* attribution stands unless it names no request or a finished one (a finished request that is forked may still
\* re-prepare on its second path)
TakeTarget(e) ==
    LET ws == {q \in DOMAIN rq : "prep" \in rq[q].must /\ rq[q].ab = e.b /\ rq[q].ph = "exec"}
    IN IF e.op = "PREPARE" /\ ws # {} /\ (e.r = 0 \/ (e.r \in DOMAIN rq /\ rq[e.r].ph = "done" /\ ~rq[e.r].fork))
       THEN CHOOSE q \in ws : \A q2 \in ws : q <= q2
       ELSE e.r

\* answered requests without outstanding attempts are dropped from rq; their ids stay in tomb
Collectable(r) == /\ rq[r].ph = "done" /\ rq[r].nrep = 1 /\ rq[r].stale = 0 /\ ~rq[r].fork
                  /\ ~(\E x \in out : x.r = r)
GC == LET dead == {r \in DOMAIN rq : Collectable(r)} IN
      /\ rq' = [r \in (DOMAIN rq) \ dead |-> rq[r]]
      /\ tomb' = tomb \cup dead
      /\ UNCHANGED <<conn, out, bad>>

LateTake(e) == /\ bad' = O!Flag(FALSE, "C05", "request sent to a backend after the client was answered (not prescribed by the retry policy)", e.r)
               /\ UNCHANGED <<rq, conn, out>>
LateReply(e, r) == /\ bad' = O!Flag(FALSE, "C01", "second response for one request", r)
                   /\ UNCHANGED <<rq, conn, out>>

TraceNext ==
    /\ TLCSet(7, l)
    /\ l <= Len(TraceLog)
    /\ l' = l + 1
    /\ LET e == Ev IN
       CASE e.ev = "Reset"    -> rq' = Empty /\ conn' = Empty /\ out' = {} /\ tomb' = {} /\ UNCHANGED bad
         [] e.ev = "GC"       -> GC
         [] e.ev = "Take" /\ e.r \in tomb -> LateTake(e) /\ UNCHANGED tomb
         [] e.ev = "Reply" /\ e.t # "" /\ (\E r \in tomb : r = e.tr) -> LateReply(e, e.tr) /\ UNCHANGED tomb
         [] e.ev = "Conn"     -> O!DoConn(e.b, e.h, e.init, e.sess) /\ UNCHANGED tomb
         [] e.ev = "Submit"   -> O!DoSubmit(e.r, e.c, e.s, e.idem, e.op, e.cached, e.t, e.sess) /\ UNCHANGED tomb
         [] e.ev = "Take"     -> O!DoTake(TakeTarget(e), e.h, e.b, e.bs, e.op) /\ UNCHANGED tomb
         [] e.ev = "Answer"   -> O!DoAnswer(AnswerTarget(e), e.b, e.bs, e.o) /\ UNCHANGED tomb
         [] e.ev = "Drop"     -> O!DoDrop(e.b) /\ UNCHANGED tomb
         [] e.ev = "StrayPrepare" -> /\ bad' = O!Flag(FALSE, "C08", "a re-PREPARE reached the backend under a stream id that the proxy had not allocated for it on that connection", 0)
                                     /\ UNCHANGED <<rq, conn, out, tomb>>
         [] e.ev = "Altered" -> /\ bad' = O!Flag(FALSE, "C03", "the client received, for this request, bytes that are none of the answers a backend gave to it", e.tr)
                                /\ UNCHANGED <<rq, conn, out, tomb>>
         [] e.ev = "BadFrame" -> O!DoBadFrame(e.r, e.prep) /\ UNCHANGED tomb
         [] e.ev = "SendFail" -> (IF e.r \in tomb THEN UNCHANGED <<rq, conn, out, bad>> ELSE O!DoSendFail(e.r, e.h, e.why)) /\ UNCHANGED tomb
         [] e.ev = "OnClose"  -> O!DoOnClose(e.r, e.h) /\ UNCHANGED tomb
         [] e.ev = "Reply"    -> O!DoReply(ReplyTarget(e), e.c, e.s, e.kind, e.t, e.node) /\ UNCHANGED tomb
         [] e.ev = "ClientClose" -> O!DoClientClose(e.c) /\ UNCHANGED tomb
         [] e.ev = "Quiet"    -> O!DoQuiet /\ UNCHANGED tomb
    /\ badAt' = IF Len(bad') > Len(bad) THEN Append(badAt, l) ELSE badAt

TraceSpec == TraceInit /\ [][TraceNext]_vars

\* printed once, in the state that has consumed the whole log
Verdict == (l = Len(TraceLog) + 1) => PrintT(<<"VERDICT", ToJson([bad |-> bad, at |-> badAt, consumed |-> l - 1])>>)
HighWater == PrintT(<<"HW", TLCGet(7)>>)
=============================================================================
