---------------------------- MODULE TraceSession ----------------------------
(* Validation of recorded traces against the observable content of Session.tla:      *)
(* the keyspace / version / compression a client's requests are executed with.        *)
(* Events (normalised by checks/c07.py): Hello(c, ver, comp), Use(c, folded, valid),  *)
(* UseReply(c, kind, ks, msgok), Submit(c, r), Take(r, ks, ver, comp),               *)
(* DataReply(r, kind).                                                                *)
EXTENDS Naturals, Sequences, FiniteSets, TLC, Json

TraceLog == ndJsonDeserialize("trace.ndjson")

VARIABLES cl,    \* client -> [ks, ver, comp, use]  (use = pending USE: [folded, valid] or "none")
          rq,    \* request -> [c, ks, ver, comp] as of submission
          bad, badAt, l

vars == <<cl, rq, bad, badAt, l>>
Empty == [x \in {} |-> 0]
NONE == "none"

Flag(ok, p, what, r) == IF ok THEN bad ELSE (IF Len(bad) < 200 THEN Append(bad, [p |-> p, what |-> what, r |-> r]) ELSE bad)

TraceInit == cl = Empty /\ rq = Empty /\ bad = <<>> /\ badAt = <<>> /\ l = 1 /\ TLCSet(7, 0)

Step(e) ==
    CASE e.ev = "Reset" -> cl' = Empty /\ rq' = Empty /\ UNCHANGED bad
      [] e.ev = "Hello" -> /\ cl' = (e.c :> [ks |-> "", ver |-> e.ver, comp |-> e.comp, pend |-> FALSE, folded |-> "", valid |-> FALSE]) @@ cl
                           /\ UNCHANGED <<rq, bad>>
      [] e.ev = "Use" ->   /\ cl' = [cl EXCEPT ![e.c] = [@ EXCEPT !.pend = TRUE, !.folded = e.folded, !.valid = e.valid]]
                           /\ bad' = Flag(~cl[e.c].pend, "HARNESS", "USE sent while another USE is pending", 0)
                           /\ UNCHANGED rq
      [] e.ev = "UseReply" ->
            LET u == cl[e.c] IN
            IF ~u.pend THEN bad' = Flag(FALSE, "C07", "SET_KEYSPACE/USE reply without a USE", 0) /\ UNCHANGED <<cl, rq>>
            ELSE
            /\ cl' = [cl EXCEPT ![e.c] = [@ EXCEPT !.pend = FALSE,
                                                   !.ks = IF e.kind = "setks" THEN e.ks ELSE @]]
            /\ bad' = IF u.valid
                      THEN Flag(e.kind = "setks" /\ e.ks = u.folded, "C07",
                                IF e.kind # "setks" THEN "valid USE answered with an error"
                                ELSE "USE reply does not name the keyspace as the backend does (unquoted, case-folded)", 0)
                      ELSE Flag(e.kind # "setks" /\ e.msgok, "C07",
                                IF e.kind = "setks" THEN "USE of a non-existent keyspace succeeded"
                                ELSE "failed USE does not return the backend's error", 0)
            /\ UNCHANGED rq
      [] e.ev = "Submit" -> /\ rq' = (e.r :> [c |-> e.c, ks |-> cl[e.c].ks, ver |-> cl[e.c].ver, comp |-> cl[e.c].comp]) @@ rq
                            /\ UNCHANGED <<cl, bad>>
      [] e.ev = "DataReply" ->
            \* the backend answers every data request of this driver successfully, so anything but its result means the
            \* request was not executed for the client (e.g. refused because its session could not be created)
            /\ bad' = Flag(e.kind = "ok", "C07", "data request after a successful USE was not executed (answered " \o e.kind \o ")", e.r)
            /\ UNCHANGED <<cl, rq>>
      [] e.ev = "Take" ->
            IF e.r \notin DOMAIN rq THEN bad' = Flag(FALSE, "HARNESS", "take for unknown request", e.r) /\ UNCHANGED <<cl, rq>>
            ELSE
            /\ bad' = Flag(e.ks = rq[e.r].ks /\ e.ver = rq[e.r].ver /\ e.comp = rq[e.r].comp, "C07",
                           IF e.ks # rq[e.r].ks THEN "request executed on a connection whose keyspace is not the client's current keyspace"
                           ELSE IF e.ver # rq[e.r].ver THEN "request executed on a connection with another protocol version"
                           ELSE "request executed on a connection with another compression", e.r)
            /\ UNCHANGED <<cl, rq>>

TraceNext ==
    /\ TLCSet(7, l)
    /\ l <= Len(TraceLog)
    /\ l' = l + 1
    /\ Step(TraceLog[l])
    /\ badAt' = IF Len(bad') > Len(bad) THEN Append(badAt, l) ELSE badAt

TraceSpec == TraceInit /\ [][TraceNext]_vars
Verdict == (l = Len(TraceLog) + 1) => PrintT(<<"VERDICT", ToJson([bad |-> bad, at |-> badAt, consumed |-> l - 1])>>)
HighWater == PrintT(<<"HW", TLCGet(7)>>)
=============================================================================
