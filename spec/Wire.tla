------------------------------- MODULE Wire -------------------------------
(* C03 / C12: what a forwarded frame looks like on the other side of the proxy.     *)
(*                                                                                  *)
(* Abstract frame = [ver, flags, op, stream, cons, body]: `cons` is the consistency *)
(* level field of QUERY / EXECUTE / BATCH ("-" for PREPARE), `body` stands for every *)
(* other byte of the (decompressed) body and is opaque; "COMPRESSED" in `flags`     *)
(* says the body travels compressed with the algorithm negotiated on the connection.*)
(* A response frame = [ver, flags, op, stream, kind, body].                          *)
(*                                                                                  *)
(* Written from the property statements of C03/C12, the help texts of               *)
(* --unsupported-write-consistencies / --unsupported-write-consistency-override /   *)
(* --max-protocol-version and the native protocol specifications (which flags,      *)
(* error codes and compression algorithms exist in which version) - not from the    *)
(* Go control flow.                                                                 *)
(*                                                                                  *)
(* One behaviour = one exchange: the client sends `req`, the proxy forwards it      *)
(* (ProxyForward), the backend answers (BackendReply, any response shape the        *)
(* protocol version allows), the proxy returns the answer (ProxyReturn).            *)
(* The tables REQ / RESP / DEC printed from the ASSUME at the end are what the      *)
(* Go driver replays; `verdict` / `exp_cons` of DEC are the oracle of C12, identity *)
(* is the oracle of C03.                                                            *)
EXTENDS Naturals, Sequences, FiniteSets, TLC, Json

CONSTANTS MaxVersions,  \* configured --max-protocol-version values that are enumerated
          ListMode,     \* "none" | "single" | "small" | "full": unsupported lists enumerated
          Overrides,    \* override levels enumerated
          ReqCons,      \* request consistency levels enumerated
          Ops,          \* request opcodes enumerated
          FlagMode,     \* "all" | "lean" (lean = no flags / every legal flag)
          RespMode,     \* "all" | "one"  (one = a single VOID/PREPARED answer)
          Comps,        \* compression algorithms enumerated (subset of {"none", "lz4", "snappy"})
          Export        \* tables printed at startup: subset of {"REQ", "RESP", "DEC"}

VARIABLES cfg,    \* [maxv, list, override]: proxy configuration
          req,    \* [comp, sel, f]: negotiated compression, statement class, client frame
          pc,     \* "client" | "backend" | "reply" | "done"
          wire,   \* frames received by the backend (sequence)
          resp,   \* frames sent by the backend (sequence)
          back    \* frames received by the client (sequence)
vars == <<cfg, req, pc, wire, resp, back>>

-----------------------------------------------------------------------------
LevelSeq == <<"ANY", "ONE", "TWO", "THREE", "QUORUM", "ALL", "LOCAL_QUORUM", "EACH_QUORUM",
              "SERIAL", "LOCAL_SERIAL", "LOCAL_ONE">>        \* position - 1 = wire code
Levels == {LevelSeq[i] : i \in DOMAIN LevelSeq}
Code(l) == (CHOOSE i \in DOMAIN LevelSeq : LevelSeq[i] = l) - 1

VerNum == [v3 |-> 3, v4 |-> 4, v5 |-> 5, dse1 |-> 65, dse2 |-> 66]
Versions == DOMAIN VerNum
\* versions "accepted by the configuration": at least v3, at most the configured maximum
Accepted(maxv) == {v \in Versions : VerNum[v] >= 3 /\ VerNum[v] <= VerNum[maxv]}

\* header flags a request / a response may carry in a version (protocol specifications:
\* custom payload and warnings since v4, USE_BETA introduced with v5, warnings only on responses)
ReqFlagsOK(v, F) == /\ ("PAYLOAD" \in F => VerNum[v] >= 4)
                    /\ ("BETA" \in F => v = "v5")
RespFlagsOK(v, F) == /\ ("PAYLOAD" \in F => VerNum[v] >= 4)
                     /\ ("WARNING" \in F => VerNum[v] >= 4)
Lean(S) == IF FlagMode = "lean"
           THEN {F \in S : F = {} \/ \A G \in S : G \subseteq F}
           ELSE S
ReqFlagSets(v) == Lean({F \in SUBSET {"TRACING", "PAYLOAD", "BETA"} : ReqFlagsOK(v, F)})
RespFlagSets(v) == Lean({F \in SUBSET {"TRACING", "PAYLOAD", "WARNING"} : RespFlagsOK(v, F)})

\* compression algorithms (v5 dropped snappy); a frame on a connection that negotiated
\* compression may or may not be compressed, a frame on a plain connection never is
CompOK(v, c) == c = "snappy" => v # "v5"
CompStates(v) == {cz \in Comps \X BOOLEAN :
                    CompOK(v, cz[1]) /\ (cz[2] => cz[1] # "none")}

\* statement classes: how the proxy can know whether the statement is a SELECT
SelOf(op) == CASE op = "QUERY" -> {"text_select", "text_write"}
               \* prep_late_*: the connection first EXECUTEd the id while the proxy had not seen its PREPARE (a driver
               \* after a proxy restart), then PREPAREd it through the proxy: from then on the proxy knows the statement
               \* prep_ks2_*: the same statement text was prepared before on a connection without keyspace; this connection
               \* has switched to another keyspace and prepared it again - the backend's id covers the keyspace, so it is
               \* another id, and the proxy must know what that id is, too
               [] op = "EXECUTE" -> {"prep_select", "prep_write", "prep_unknown", "prep_late_select", "prep_late_write",
                                     "prep_ks2_select", "prep_ks2_write"}
               [] op = "BATCH" -> {"batch"}
               [] op = "PREPARE" -> {"text_select", "text_write"}
IsSelect(sel) == sel \in {"text_select", "prep_select", "prep_late_select", "prep_ks2_select"}

Singletons == {{l} : l \in Levels}
Pairs == {{a, b} : a, b \in Levels} \ Singletons
AdjPairs == {{LevelSeq[i], LevelSeq[i + 1]} : i \in 1..(Len(LevelSeq) - 1)}
Lists == CASE ListMode = "none" -> {{}}
           [] ListMode = "single" -> {{}} \cup Singletons
           [] ListMode = "small" -> {{}} \cup Singletons \cup AdjPairs \cup {Levels}
           [] ListMode = "full" -> {{}} \cup Singletons \cup Pairs \cup {Levels}

Cfgs == {[maxv |-> m, list |-> L, override |-> o] : m \in MaxVersions, L \in Lists, o \in Overrides}

CStream == 7   \* the client's stream id
BStream == 3   \* the stream id the proxy allocates on the backend connection

ReqFrame(v, F, z, op, c) ==
    [ver |-> v, flags |-> F \cup (IF z THEN {"COMPRESSED"} ELSE {}), op |-> op, stream |-> CStream,
     cons |-> (IF op = "PREPARE" THEN "-" ELSE c), body |-> "b"]

ReqRows(maxv) ==
    UNION {UNION {UNION {
        {[comp |-> cz[1], sel |-> s, f |-> ReqFrame(v, F, cz[2], op, c)] :
            s \in SelOf(op), F \in ReqFlagSets(v), c \in (IF op = "PREPARE" THEN {"-"} ELSE ReqCons)}
        : cz \in CompStates(v)} : op \in Ops} : v \in Accepted(maxv)}

-----------------------------------------------------------------------------
\* C12: the decision.  "same" = forwarded unmodified, "override" = consistency replaced,
\* "open" = the statement leaves it open (EXECUTE of an id the proxy never saw a PREPARE for:
\* the proxy cannot know whether it is a SELECT).
Verdict(c, sel, op, cons) ==
    IF op \notin {"QUERY", "EXECUTE", "BATCH"} \/ c.list = {} \/ IsSelect(sel) \/ cons \notin c.list
    THEN "same"
    ELSE IF sel = "prep_unknown" THEN "open" ELSE "override"

OverrideSet(c, sel, f) ==
    LET v == Verdict(c, sel, f.op, f.cons) IN
    (IF v \in {"same", "open"} THEN {f} ELSE {}) \cup
    (IF v \in {"override", "open"} THEN {[f EXCEPT !.cons = c.override]} ELSE {})

WithStream(f, s) == [f EXCEPT !.stream = s]

\* responses the backend may send to a frame: same version, any legal flag set, compressed or not
\* when the connection negotiated compression, every RESULT kind of the request and every error
\* code of the version
ErrKinds == {"server_error", "protocol_error", "auth_error", "unavailable", "overloaded", "is_bootstrapping",
             "truncate_error", "write_timeout", "read_timeout", "read_failure", "function_failure",
             "write_failure", "syntax_error", "unauthorized", "invalid", "config_error", "already_exists",
             "unprepared"}
V4Errs == {"read_failure", "function_failure", "write_failure"}
ResultKinds(op) == IF op = "PREPARE" THEN {"prepared"} ELSE {"void", "rows", "schema_change"}
RespKinds(op, v) ==
    IF RespMode = "one" THEN {IF op = "PREPARE" THEN "prepared" ELSE "void"}
    ELSE ResultKinds(op) \cup {k \in ErrKinds : k \in V4Errs => VerNum[v] >= 4}
RespFrame(v, F, z, k, s) ==
    [ver |-> v, flags |-> F \cup (IF z THEN {"COMPRESSED"} ELSE {}),
     op |-> (IF k \in ErrKinds THEN "ERROR" ELSE "RESULT"), stream |-> s, kind |-> k, body |-> "r"]
RespFrames(comp, w) ==
    {RespFrame(w.ver, F, z, k, w.stream) :
        F \in (IF RespMode = "one" THEN {{}} ELSE RespFlagSets(w.ver)),
        z \in (IF comp = "none" THEN {FALSE} ELSE IF RespMode = "one" THEN {TRUE} ELSE BOOLEAN),
        k \in RespKinds(w.op, w.ver)}

-----------------------------------------------------------------------------
Init == /\ cfg \in Cfgs
        /\ req \in ReqRows(cfg.maxv)
        /\ pc = "client" /\ wire = <<>> /\ resp = <<>> /\ back = <<>>

ProxyForward ==
    /\ pc = "client"
    /\ \E g \in OverrideSet(cfg, req.sel, req.f) : wire' = <<WithStream(g, BStream)>>
    /\ pc' = "backend"
    /\ UNCHANGED <<cfg, req, resp, back>>

BackendReply ==
    /\ pc = "backend"
    /\ \E r \in RespFrames(req.comp, wire[1]) : resp' = <<r>>
    /\ pc' = "reply"
    /\ UNCHANGED <<cfg, req, wire, back>>

ProxyReturn ==
    /\ pc = "reply"
    /\ back' = <<WithStream(resp[1], req.f.stream)>>
    /\ pc' = "done"
    /\ UNCHANGED <<cfg, req, wire, resp>>

Done == pc = "done" /\ UNCHANGED vars

Next == ProxyForward \/ BackendReply \/ ProxyReturn \/ Done
Spec == Init /\ [][Next]_vars

-----------------------------------------------------------------------------
Forwarded == pc # "client"
V == Verdict(cfg, req.sel, req.f.op, req.f.cons)

\* C03: without an applicable override the backend sees the client's frame, stream id apart
Transparent == Forwarded /\ V = "same" => wire = <<WithStream(req.f, BStream)>>
\* C03 / C12: nothing but stream id and consistency ever differs
OverrideOnlyConsistency ==
    Forwarded => [wire[1] EXCEPT !.cons = req.f.cons, !.stream = req.f.stream] = req.f
\* C12: a matching write carries the override level
OverrideTarget ==
    Forwarded => /\ (V = "override" => wire[1].cons = cfg.override)
                 /\ (V = "open" => wire[1].cons \in {req.f.cons, cfg.override})
SelectUntouched == Forwarded /\ IsSelect(req.sel) => wire = <<WithStream(req.f, BStream)>>
NoListNoChange == Forwarded /\ cfg.list = {} => wire = <<WithStream(req.f, BStream)>>
UnlistedUntouched == Forwarded /\ req.f.cons \notin cfg.list => wire = <<WithStream(req.f, BStream)>>
PrepareUntouched == Forwarded /\ req.f.op = "PREPARE" => wire = <<WithStream(req.f, BStream)>>
\* applying the override to an overridden frame changes nothing
IdempotentOverride ==
    V # "open" => \A g \in OverrideSet(cfg, req.sel, req.f) : OverrideSet(cfg, req.sel, g) = {g}
\* the forwarded frame is still legal for its version / connection
WireWellFormed ==
    Forwarded => /\ wire[1].ver \in Accepted(cfg.maxv)
                 /\ ReqFlagsOK(wire[1].ver, wire[1].flags \ {"COMPRESSED"})
                 /\ ("COMPRESSED" \in wire[1].flags => req.comp # "none")
                 /\ (wire[1].op = "PREPARE" <=> wire[1].cons = "-")
                 /\ (wire[1].op # "PREPARE" => wire[1].cons \in Levels)
\* C03: the client receives the backend's answer, stream id apart, on its own stream
ReplyTransparent ==
    pc = "done" => /\ back = <<WithStream(resp[1], req.f.stream)>>
                   /\ [back[1] EXCEPT !.stream = BStream] = resp[1]
                   /\ back[1].stream = req.f.stream
TypeOK == /\ pc \in {"client", "backend", "reply", "done"}
          /\ Len(wire) <= 1 /\ Len(resp) <= 1 /\ Len(back) <= 1
          /\ (pc = "client" <=> wire = <<>>)
          /\ (pc \in {"reply", "done"} <=> resp # <<>>)
          /\ (pc = "done" <=> back # <<>>)

-----------------------------------------------------------------------------
\* exported tables
SetToSortedLevels(S) == LET RECURSIVE B(_)
                            B(i) == IF i > Len(LevelSeq) THEN <<>>
                                    ELSE (IF LevelSeq[i] \in S THEN <<LevelSeq[i]>> ELSE <<>>) \o B(i + 1)
                        IN B(1)
FlagSeq(F) == LET o == <<"COMPRESSED", "TRACING", "PAYLOAD", "WARNING", "BETA">>
                  RECURSIVE B(_)
                  B(i) == IF i > Len(o) THEN <<>> ELSE (IF o[i] \in F THEN <<o[i]>> ELSE <<>>) \o B(i + 1)
              IN B(1)

ReqTable ==
    UNION {{[maxv |-> m, ver |-> r.f.ver, op |-> r.f.op, sel |-> r.sel, comp |-> r.comp,
             compressed |-> "COMPRESSED" \in r.f.flags, flags |-> FlagSeq(r.f.flags \ {"COMPRESSED"})]
            : r \in ReqRows(m)} : m \in MaxVersions}

RespTable ==
    UNION {UNION {
        {[ver |-> v, comp |-> cz[1], compressed |-> cz[2], for |-> (IF op = "PREPARE" THEN "prepare" ELSE "data"),
          kind |-> k, op |-> (IF k \in ErrKinds THEN "ERROR" ELSE "RESULT"), flags |-> FlagSeq(F)]
            : k \in RespKinds(op, v), F \in RespFlagSets(v), cz \in CompStates(v)}
        : op \in Ops} : v \in UNION {Accepted(m) : m \in MaxVersions}}

DecTable ==
    {[list |-> SetToSortedLevels(c.list), override |-> c.override, cons |-> k, op |-> op, sel |-> s,
      verdict |-> Verdict(c, s, op, k),
      exp_cons |-> (IF Verdict(c, s, op, k) = "override" THEN c.override ELSE k)]
        : c \in {[maxv |-> "v4", list |-> L, override |-> o] : L \in Lists, o \in Overrides},
          k \in ReqCons, op \in Ops \ {"PREPARE"}, s \in UNION {SelOf(o2) : o2 \in Ops \ {"PREPARE"}}}

DecRows == {d \in DecTable : d.sel \in SelOf(d.op)}

\* the table agrees with the behaviours: what reaches the backend carries exp_cons
TableAgrees ==
    Forwarded /\ V # "open" =>
        wire[1].cons = (IF V = "override" THEN cfg.override ELSE req.f.cons)

ASSUME /\ MaxVersions \subseteq Versions /\ Overrides \subseteq Levels /\ ReqCons \subseteq Levels
       /\ Ops \subseteq {"QUERY", "EXECUTE", "BATCH", "PREPARE"}
       /\ Comps \subseteq {"none", "lz4", "snappy"}
       /\ \A i \in DOMAIN LevelSeq : Code(LevelSeq[i]) = i - 1
ASSUME "REQ" \in Export => \A r \in ReqTable : PrintT(<<"REQ", ToJson(r)>>)
ASSUME "RESP" \in Export => \A r \in RespTable : PrintT(<<"RESP", ToJson(r)>>)
ASSUME "DEC" \in Export => \A r \in DecRows : PrintT(<<"DEC", ToJson(r)>>)
=============================================================================
