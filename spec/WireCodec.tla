------------------------------ MODULE WireCodec ------------------------------
(* C11 - the partial QUERY / EXECUTE / BATCH codecs of the proxy agree with the     *)
(* reference protocol codecs.                                                       *)
(*                                                                                  *)
(* This module is a DECISION TABLE with byte-level semantics.  It is written from   *)
(* the native protocol specifications (native_protocol_v3/v4/v5.spec,               *)
(* dse_protocol_v1/v2.spec: section 3 "Notations", 4.1.4 QUERY, 4.1.6 EXECUTE,      *)
(* 4.1.7 BATCH) and from the statement of property C11 - not from the Go code.      *)
(*                                                                                  *)
(*   Items(r)     the complete layout of the request body of abstract row r, as a   *)
(*                sequence of items <<type, value, name, leading>>; type is one of  *)
(*                "b" [byte] "s" [short] "i" [int] "l" [long] "f" (run of content   *)
(*                bytes); `leading` marks the fields a partial decoder has to       *)
(*                understand: everything up to and including <consistency>.         *)
(*   Bytes(its)   the encoding of a layout (big-endian, two's complement).          *)
(*   Extract(r)   the fields the proxy uses (query string / prepared id / batch      *)
(*                children with their raw values / consistency) as offsets into the *)
(*                body, computed arithmetically from the row, and LeadingLen.       *)
(*   Dec(...)     a decoder of the leading fields written from the notation rules,  *)
(*                Reenc(...) the re-encoder of what Dec extracted.                  *)
(*                                                                                  *)
(* TLC checks on every row: the three formulations agree (layout, arithmetic,       *)
(* decoder), Reenc(Dec(body)) = body, every prefix shorter than LeadingLen is       *)
(* rejected and every prefix that only cuts the opaque remainder is accepted with   *)
(* the same extraction; rows whose leading layout is undefined (unknown batch child *)
(* kind) are rejected.  Every row is exported with its layout, its extraction, its  *)
(* class (valid / reject / open) and a checksum of its bytes; the Go driver         *)
(* harness/cmd/vdrv-codec concretises rows with the reference codec and replays     *)
(* them into codecs.CustomRawCodec.                                                 *)
EXTENDS Integers, Sequences, FiniteSets, TLC, Json

CONSTANT Tier          \* "quick" or "thorough": size of the enumerated domain

VARIABLE row

Quick == Tier = "quick"

-----------------------------------------------------------------------------
(* Protocol versions and what the specification texts say about them.              *)
VerSet == {"v3", "v4", "v5", "DSEv1", "DSEv2"}
OpSet == {"QUERY", "EXECUTE", "BATCH"}

IsDse(v) == v \in {"DSEv1", "DSEv2"}
\* <flags> is a [byte] in v3 and v4, an [int] in v5 and in both DSE protocols
FlagsAreInt(v) == v \in {"v5", "DSEv1", "DSEv2"}
\* EXECUTE is <id><result_metadata_id><query_parameters> in v5 (4.1.6) and DSE v2 (4.1.6, 10.2);
\* it is <id><query_parameters> in v3, v4 and DSE v1
HasRmid(v) == v \in {"v5", "DSEv2"}
\* <keyspace> (flag 0x80): v5 and DSE v2 ("DSE v1 does _not_ have keyspace field")
HasKeyspace(v) == v \in {"v5", "DSEv2"}
\* <now_in_seconds> (flag 0x100): v5 only
HasNow(v) == v = "v5"
\* <next_pages> in the continuous paging options: DSE v2 only
HasNextPages(v) == v = "DSEv2"
\* bound values are [bytes] in v3 (any n < 0 is null); [value] from v4 (n = -1 null, n = -2 not set,
\* n < -2 invalid)
ValuesAreBytes(v) == v = "v3"

-----------------------------------------------------------------------------
(* Items and their encoding.                                                       *)
ItB(n, v, ld) == <<"b", v, n, ld>>
ItS(n, v, ld) == <<"s", v, n, ld>>
ItI(n, v, ld) == <<"i", v, n, ld>>
ItL(n, v, ld) == <<"l", v, n, ld>>
ItF(n, v, ld) == <<"f", v, n, ld>>

ItemLen(it) == CASE it[1] = "b" -> 1 [] it[1] = "s" -> 2 [] it[1] = "i" -> 4
                 [] it[1] = "l" -> 8 [] it[1] = "f" -> it[2]

RECURSIVE SumLen(_, _)
SumLen(its, onlyLead) ==
    IF its = <<>> THEN 0
    ELSE (IF onlyLead /\ ~Head(its)[4] THEN 0 ELSE ItemLen(Head(its))) + SumLen(Tail(its), onlyLead)

U16(n) == <<(n \div 256) % 256, n % 256>>
U32(n) == <<(n \div 16777216) % 256, (n \div 65536) % 256, (n \div 256) % 256, n % 256>>
\* two's complement of a negative 32-bit number without leaving the 32-bit range
I32(n) == IF n >= 0 THEN U32(n)
          ELSE LET m == -(n + 1) IN
               <<255 - ((m \div 16777216) % 256), 255 - ((m \div 65536) % 256),
                 255 - ((m \div 256) % 256), 255 - (m % 256)>>
\* content bytes: the letters a..z repeated
Fill(len) == [j \in 1..len |-> 97 + ((j - 1) % 26)]

ItemBytes(it) == CASE it[1] = "b" -> <<it[2] % 256>>
                   [] it[1] = "s" -> U16(it[2])
                   [] it[1] = "i" -> I32(it[2])
                   [] it[1] = "l" -> <<0, 0, 0, 0>> \o U32(it[2])     \* only small non-negative longs are used
                   [] it[1] = "f" -> Fill(it[2])

RECURSIVE Bytes(_)
Bytes(its) == IF its = <<>> THEN <<>> ELSE ItemBytes(Head(its)) \o Bytes(Tail(its))

RECURSIVE Cksum(_, _, _)
Cksum(B, i, acc) == IF i > Len(B) THEN acc
                    ELSE Cksum(B, i + 1, (acc + (((i - 1) % 251) + 1) * B[i]) % 65521)

-----------------------------------------------------------------------------
(* Layout of the messages.                                                         *)

\* [value] / [bytes]: an [int] n followed by n bytes if n > 0
ValueItems(n, ld) == <<ItI("value.n", n, ld)>> \o (IF n > 0 THEN <<ItF("value", n, ld)>> ELSE <<>>)
RECURSIVE ValueListItems(_, _, _)
ValueListItems(vals, named, ld) ==
    IF vals = <<>> THEN <<>>
    ELSE (IF named THEN <<ItS("name.n", 2, ld), ItF("name", 2, ld)>> ELSE <<>>)
         \o ValueItems(Head(vals), ld) \o ValueListItems(Tail(vals), named, ld)
\* <n><value_1>...<value_n>
ValuesItems(vals, named, ld) == <<ItS("values.n", Len(vals), ld)>> \o ValueListItems(vals, named, ld)

\* numeric value of <flags>; 0x80000000 does not fit a positive 32-bit integer
FlagsValue(r) ==
    LET has(o) == o \in r.opts
        low == (IF r.vm # "none" THEN 1 ELSE 0) + (IF has("skipmeta") THEN 2 ELSE 0)
               + (IF has("pagesize") THEN 4 ELSE 0) + (IF has("paging") THEN 8 ELSE 0)
               + (IF has("serial") THEN 16 ELSE 0) + (IF has("ts") THEN 32 ELSE 0)
               + (IF r.vm = "named" THEN 64 ELSE 0) + (IF has("ks") THEN 128 ELSE 0)
               + (IF has("now") THEN 256 ELSE 0) + (IF has("psbytes") THEN 1073741824 ELSE 0)
    IN IF has("contpaging") THEN (low - 2147483647) - 1 ELSE low

FlagsItem(r) == IF FlagsAreInt(r.ver) THEN ItI("flags", FlagsValue(r), FALSE)
                ELSE ItB("flags", FlagsValue(r), FALSE)

\* fixed contents of the optional parameters (they belong to the opaque remainder)
PageSize == 5000
PagingStateLen == 9
SerialCons == 8
Timestamp == 1234567
KeyspaceLen == 5
NowInSeconds == 1234
MaxPages == 7
PagesPerSecond == 3
NextPages == 2

\* <consistency><flags>[<n>[name_1]<value_1>...][<result_page_size>][<paging_state>][<serial_consistency>]
\* [<timestamp>][<keyspace>][<now_in_seconds>][continuous_paging_options]
QueryParamItems(r) ==
    LET has(o) == o \in r.opts IN
    <<ItS("consistency", r.cons, TRUE), FlagsItem(r)>>
    \o (IF r.vm # "none" THEN ValuesItems(r.vals, r.vm = "named", FALSE) ELSE <<>>)
    \o (IF has("pagesize") THEN <<ItI("page_size", PageSize, FALSE)>> ELSE <<>>)
    \o (IF has("paging") THEN <<ItI("paging_state.n", PagingStateLen, FALSE), ItF("paging_state", PagingStateLen, FALSE)>> ELSE <<>>)
    \o (IF has("serial") THEN <<ItS("serial_consistency", SerialCons, FALSE)>> ELSE <<>>)
    \o (IF has("ts") THEN <<ItL("timestamp", Timestamp, FALSE)>> ELSE <<>>)
    \o (IF has("ks") THEN <<ItS("keyspace.n", KeyspaceLen, FALSE), ItF("keyspace", KeyspaceLen, FALSE)>> ELSE <<>>)
    \o (IF has("now") THEN <<ItI("now_in_seconds", NowInSeconds, FALSE)>> ELSE <<>>)
    \o (IF has("contpaging")
        THEN <<ItI("max_pages", MaxPages, FALSE), ItI("pages_per_second", PagesPerSecond, FALSE)>>
             \o (IF HasNextPages(r.ver) THEN <<ItI("next_pages", NextPages, FALSE)>> ELSE <<>>)
        ELSE <<>>)

\* [long string]: an [int] n followed by n bytes; qlen = -1 is the malformed row "qneg"
LongStringItems(name, n, ld) == <<ItI(name \o ".n", n, ld)>> \o (IF n > 0 THEN <<ItF(name, n, ld)>> ELSE <<>>)
\* [short bytes]: a [short] n followed by n bytes
ShortBytesItems(name, n, ld) == <<ItS(name \o ".n", n, ld)>> \o (IF n > 0 THEN <<ItF(name, n, ld)>> ELSE <<>>)

QueryItems(r) == LongStringItems("query", r.qlen, TRUE) \o QueryParamItems(r)

ExecuteItems(r) == ShortBytesItems("id", r.idlen, TRUE)
                   \o (IF HasRmid(r.ver) THEN ShortBytesItems("result_metadata_id", r.rmidlen, TRUE) ELSE <<>>)
                   \o QueryParamItems(r)

\* <kind><string_or_id><n><value_1>...<value_n>
KidItems(k) == <<ItB("kind", k.kind, TRUE)>>
               \o (IF k.kind = 0 THEN LongStringItems("child.query", k.len, TRUE)
                   ELSE ShortBytesItems("child.id", k.len, TRUE))
               \o ValuesItems(k.vals, FALSE, TRUE)
RECURSIVE KidsItems(_)
KidsItems(kids) == IF kids = <<>> THEN <<>> ELSE KidItems(Head(kids)) \o KidsItems(Tail(kids))

\* <type><n><query_1>...<query_n><consistency><flags>[<serial_consistency>][<timestamp>][<keyspace>][<now_in_seconds>]
BatchItems(r) ==
    LET has(o) == o \in r.opts IN
    <<ItB("type", r.btype, TRUE), ItS("n", Len(r.kids), TRUE)>> \o KidsItems(r.kids)
    \o <<ItS("consistency", r.cons, TRUE), FlagsItem(r)>>
    \o (IF has("serial") THEN <<ItS("serial_consistency", SerialCons, FALSE)>> ELSE <<>>)
    \o (IF has("ts") THEN <<ItL("timestamp", Timestamp, FALSE)>> ELSE <<>>)
    \o (IF has("ks") THEN <<ItS("keyspace.n", KeyspaceLen, FALSE), ItF("keyspace", KeyspaceLen, FALSE)>> ELSE <<>>)
    \o (IF has("now") THEN <<ItI("now_in_seconds", NowInSeconds, FALSE)>> ELSE <<>>)

Items(r) == CASE r.op = "QUERY" -> QueryItems(r)
              [] r.op = "EXECUTE" -> ExecuteItems(r)
              [] r.op = "BATCH" -> BatchItems(r)

-----------------------------------------------------------------------------
(* Extract: what the proxy needs, as offsets (0-based) into the body, computed      *)
(* arithmetically from the row.  parts = <<[k, off, len]>> with k in "q" (query     *)
(* string), "id" (prepared id), "rmid" (result metadata id: not used by the proxy   *)
(* but needed to re-encode), "vals" (raw <n><value_1>...<value_n> of a batch child).*)
Max0(n) == IF n > 0 THEN n ELSE 0
RECURSIVE ValsLen(_)
ValsLen(vals) == IF vals = <<>> THEN 0 ELSE 4 + Max0(Head(vals)) + ValsLen(Tail(vals))

RECURSIVE KidParts(_, _)
KidParts(kids, p) ==
    IF kids = <<>> THEN <<>>
    ELSE LET k == Head(kids)
             hdr == IF k.kind = 0 THEN 4 ELSE 2
             vlen == 2 + ValsLen(k.vals)
         IN <<[k |-> IF k.kind = 0 THEN "q" ELSE "id", off |-> p + 1 + hdr, len |-> Max0(k.len)],
              [k |-> "vals", off |-> p + 1 + hdr + Max0(k.len), len |-> vlen]>>
            \o KidParts(Tail(kids), p + 1 + hdr + Max0(k.len) + vlen)

LastEnd(parts, dflt) == IF parts = <<>> THEN dflt ELSE parts[Len(parts)].off + parts[Len(parts)].len

Extract(r) ==
    CASE r.op = "QUERY" ->
           [ok |-> TRUE, btype |-> -1, cons |-> r.cons, lead |-> 4 + Max0(r.qlen) + 2,
            parts |-> <<[k |-> "q", off |-> 4, len |-> Max0(r.qlen)]>>]
      [] r.op = "EXECUTE" ->
           IF HasRmid(r.ver)
           THEN [ok |-> TRUE, btype |-> -1, cons |-> r.cons, lead |-> 2 + r.idlen + 2 + r.rmidlen + 2,
                 parts |-> <<[k |-> "id", off |-> 2, len |-> r.idlen],
                             [k |-> "rmid", off |-> 2 + r.idlen + 2, len |-> r.rmidlen]>>]
           ELSE [ok |-> TRUE, btype |-> -1, cons |-> r.cons, lead |-> 2 + r.idlen + 2,
                 parts |-> <<[k |-> "id", off |-> 2, len |-> r.idlen]>>]
      [] r.op = "BATCH" ->
           LET ps == KidParts(r.kids, 3) IN
           [ok |-> TRUE, btype |-> r.btype, cons |-> r.cons, lead |-> LastEnd(ps, 3) + 2, parts |-> ps]

-----------------------------------------------------------------------------
(* Decoder of the leading fields, from the notation rules (section 3).  B is a     *)
(* sequence of bytes, n the number of bytes available (n <= Len(B)): positions are  *)
(* 0-based, -1 is the error position.                                               *)
Need(p, k, n) == p >= 0 /\ p + k <= n
U16At(B, p) == B[p + 1] * 256 + B[p + 2]
I32At(B, p) == IF B[p + 1] < 128
               THEN ((B[p + 1] * 256 + B[p + 2]) * 256 + B[p + 3]) * 256 + B[p + 4]
               ELSE -((((255 - B[p + 1]) * 256 + (255 - B[p + 2])) * 256 + (255 - B[p + 3])) * 256 + (255 - B[p + 4])) - 1

\* position after a [long string]; a negative length is not a [long string]
SkipLongString(B, p, n) ==
    IF ~Need(p, 4, n) THEN -1
    ELSE LET l == I32At(B, p) IN IF l < 0 \/ p + 4 + l > n THEN -1 ELSE p + 4 + l
SkipShortBytes(B, p, n) ==
    IF ~Need(p, 2, n) THEN -1
    ELSE LET l == U16At(B, p) IN IF p + 2 + l > n THEN -1 ELSE p + 2 + l
SkipValue(ver, B, p, n) ==
    IF ~Need(p, 4, n) THEN -1
    ELSE LET l == I32At(B, p) IN
         IF l >= 0 THEN (IF p + 4 + l > n THEN -1 ELSE p + 4 + l)
         ELSE IF ValuesAreBytes(ver) THEN p + 4
         ELSE IF l >= -2 THEN p + 4 ELSE -1
RECURSIVE SkipValueList(_, _, _, _, _)
SkipValueList(ver, B, p, n, m) ==
    IF p < 0 THEN -1 ELSE IF m = 0 THEN p ELSE SkipValueList(ver, B, SkipValue(ver, B, p, n), n, m - 1)
SkipValues(ver, B, p, n) ==
    IF ~Need(p, 2, n) THEN -1 ELSE SkipValueList(ver, B, p + 2, n, U16At(B, p))

ErrD == [ok |-> FALSE, btype |-> -1, cons |-> -1, lead |-> -1, parts |-> <<>>]

\* children of a batch: returns [p, parts]; p = -1 on error
RECURSIVE DecKids(_, _, _, _, _, _)
DecKids(ver, B, p, n, m, acc) ==
    IF m = 0 THEN [p |-> p, parts |-> acc]
    ELSE IF ~Need(p, 1, n) THEN [p |-> -1, parts |-> acc]
    ELSE LET kind == B[p + 1]
             q == IF kind = 0 THEN SkipLongString(B, p + 1, n)
                  ELSE IF kind = 1 THEN SkipShortBytes(B, p + 1, n)
                  ELSE -1                        \* <kind> must be 0 or 1: no layout for anything else
             hdr == IF kind = 0 THEN 4 ELSE 2
             e == SkipValues(ver, B, q, n)
         IN IF q < 0 \/ e < 0 THEN [p |-> -1, parts |-> acc]
            ELSE DecKids(ver, B, e, n, m - 1,
                         acc \o <<[k |-> IF kind = 0 THEN "q" ELSE "id", off |-> p + 1 + hdr, len |-> q - (p + 1 + hdr)],
                                  [k |-> "vals", off |-> q, len |-> e - q]>>)

Dec(ver, op, B, n) ==
    CASE op = "QUERY" ->
           LET p1 == SkipLongString(B, 0, n) IN
           IF ~Need(p1, 2, n) THEN ErrD
           ELSE [ok |-> TRUE, btype |-> -1, cons |-> U16At(B, p1), lead |-> p1 + 2,
                 parts |-> <<[k |-> "q", off |-> 4, len |-> p1 - 4]>>]
      [] op = "EXECUTE" ->
           LET p1 == SkipShortBytes(B, 0, n)
               p2 == IF HasRmid(ver) THEN SkipShortBytes(B, p1, n) ELSE p1
           IN IF ~Need(p2, 2, n) THEN ErrD
              ELSE [ok |-> TRUE, btype |-> -1, cons |-> U16At(B, p2), lead |-> p2 + 2,
                    parts |-> <<[k |-> "id", off |-> 2, len |-> p1 - 2]>>
                              \o (IF HasRmid(ver) THEN <<[k |-> "rmid", off |-> p1 + 2, len |-> p2 - (p1 + 2)]>> ELSE <<>>)]
      [] op = "BATCH" ->
           IF ~Need(0, 3, n) THEN ErrD
           ELSE LET d == DecKids(ver, B, 3, n, U16At(B, 1), <<>>) IN
                IF ~Need(d.p, 2, n) THEN ErrD
                ELSE [ok |-> TRUE, btype |-> B[1], cons |-> U16At(B, d.p), lead |-> d.p + 2, parts |-> d.parts]

Sub(B, off, len) == SubSeq(B, off + 1, off + len)

\* re-encoding of an extraction d of body B[1..n]: the leading fields are written from the extracted
\* values (lengths are recomputed), the remainder is copied
RECURSIVE ReencParts(_, _)
ReencParts(B, parts) ==
    IF parts = <<>> THEN <<>>
    ELSE LET x == Head(parts) IN
         (CASE x.k = "q" -> I32(x.len) \o Sub(B, x.off, x.len)
            [] x.k \in {"id", "rmid"} -> U16(x.len) \o Sub(B, x.off, x.len)
            [] x.k = "vals" -> Sub(B, x.off, x.len))
         \o ReencParts(B, Tail(parts))
RECURSIVE ReencKids(_, _)
ReencKids(B, parts) ==
    IF parts = <<>> THEN <<>>
    ELSE <<IF parts[1].k = "q" THEN 0 ELSE 1>> \o ReencParts(B, <<parts[1], parts[2]>>)
         \o ReencKids(B, SubSeq(parts, 3, Len(parts)))
Reenc(op, B, n, d) ==
    (IF op = "BATCH" THEN <<d.btype>> \o U16(Len(d.parts) \div 2) \o ReencKids(B, d.parts)
     ELSE ReencParts(B, d.parts))
    \o U16(d.cons) \o Sub(B, d.lead, n - d.lead)

-----------------------------------------------------------------------------
(* The enumerated domain.                                                           *)
ConsValid == IF Quick THEN {1, 10} ELSE {0, 1, 6, 10}
ConsInvalid == {11, 65535}
QLens == IF Quick THEN {0, 27} ELSE {0, 1, 27, 300}
IdLens == IF Quick THEN {1, 16} ELSE {1, 16, 255}
RmidLens(v) == IF ~HasRmid(v) THEN {0} ELSE IF Quick THEN {16} ELSE {1, 16, 255}
DefRmid(v) == IF HasRmid(v) THEN 16 ELSE 0

\* value length codes: -1 null, -2 not set, 0 empty, 4 small, 300 large
ValCodes(v) == {-1, 0, 4, 300} \cup (IF ValuesAreBytes(v) THEN {} ELSE {-2})
Seqs1(S) == {<<a>> : a \in S}
Seqs2(S) == {<<a, b>> : a \in S, b \in S}
PosLists(v) ==
    IF Quick THEN {<<>>, <<4>>, <<-1, 300, 0>>} \cup (IF ValuesAreBytes(v) THEN {} ELSE {<<-2>>, <<4, -2>>})
    ELSE {<<>>} \cup Seqs1(ValCodes(v)) \cup Seqs2(ValCodes(v)) \cup {<<-1, 300, 0>>, <<4, 4, 4>>}
NamedLists == {<<>>, <<4>>, <<-1>>}
ValueModes(v) == {[vm |-> "none", vals |-> <<>>]} \cup {[vm |-> "pos", vals |-> l] : l \in PosLists(v)}
                 \cup {[vm |-> "named", vals |-> l] : l \in NamedLists}

\* option subsets that are legal for a version (Page_size_bytes qualifies <result_page_size>)
OptUniverse(v) == {"skipmeta", "pagesize", "paging", "serial", "ts"}
                  \cup (IF HasKeyspace(v) THEN {"ks"} ELSE {}) \cup (IF HasNow(v) THEN {"now"} ELSE {})
                  \cup (IF IsDse(v) THEN {"psbytes", "contpaging"} ELSE {})
LegalOpts(v) == {s \in SUBSET OptUniverse(v) : "psbytes" \in s => "pagesize" \in s}
BatchOptUniverse(v) == {"serial", "ts"} \cup (IF HasKeyspace(v) THEN {"ks"} ELSE {}) \cup (IF HasNow(v) THEN {"now"} ELSE {})
LegalBatchOpts(v) == SUBSET BatchOptUniverse(v)

MkRow(ver, op, mal, qlen, idlen, rmidlen, cons, opts, vm, vals, btype, kids) ==
    [stage |-> "row", ver |-> ver, op |-> op, mal |-> mal, qlen |-> qlen, idlen |-> idlen, rmidlen |-> rmidlen,
     cons |-> cons, opts |-> opts, vm |-> vm, vals |-> vals, btype |-> btype, kids |-> kids]
QRow(ver, mal, qlen, cons, opts, m) == MkRow(ver, "QUERY", mal, qlen, 0, 0, cons, opts, m.vm, m.vals, 0, <<>>)
ERow(ver, mal, idlen, rmidlen, cons, opts, m) == MkRow(ver, "EXECUTE", mal, 0, idlen, rmidlen, cons, opts, m.vm, m.vals, 0, <<>>)
BRow(ver, mal, btype, kids, cons, opts) == MkRow(ver, "BATCH", mal, 0, 0, 0, cons, opts, "none", <<>>, btype, kids)

NoVals == [vm |-> "none", vals |-> <<>>]
OneVal == [vm |-> "pos", vals |-> <<4>>]
Kid(kind, len, vals) == [kind |-> kind, len |-> len, vals |-> vals]

\* batch children
KidVals(v) == {<<>>, <<4>>, <<-1, 300, 0>>} \cup (IF ValuesAreBytes(v) THEN {} ELSE {<<-2, 4>>})
KidShapes(v) == {Kid(0, 27, vs) : vs \in KidVals(v)} \cup {Kid(1, 16, vs) : vs \in KidVals(v)}
KidLenShapes == {Kid(0, l, <<4>>) : l \in (IF Quick THEN {1, 27} ELSE {1, 27, 300})}
                \cup {Kid(1, l, <<4>>) : l \in IdLens}
MaxKids == IF Quick THEN 2 ELSE 3
RECURSIVE KidSeqs(_, _)
KidSeqs(S, n) == IF n = 0 THEN {<<>>} ELSE {<<>>} \cup {<<k>> \o t : k \in S, t \in KidSeqs(S, n - 1)}

\* seeds: the first level of the state graph only distributes the enumeration over TLC's workers
Seeds ==
    {[stage |-> "seed", ver |-> v, op |-> op, fam |-> "opts", m |-> m, k |-> Kid(0, 0, <<>>)] :
        v \in VerSet, op \in {"QUERY", "EXECUTE"}, m \in {x \in UNION {ValueModes(w) : w \in VerSet} : TRUE}}
    \cup {[stage |-> "seed", ver |-> v, op |-> op, fam |-> f, m |-> NoVals, k |-> Kid(0, 0, <<>>)] :
        v \in VerSet, op \in OpSet, f \in {"lead", "mal"}}
    \cup {[stage |-> "seed", ver |-> v, op |-> "BATCH", fam |-> "kids0", m |-> NoVals, k |-> Kid(0, 0, <<>>)] : v \in VerSet}
    \cup {[stage |-> "seed", ver |-> v, op |-> "BATCH", fam |-> "kids", m |-> NoVals, k |-> k] :
        v \in VerSet, k \in UNION {KidShapes(w) : w \in VerSet}}

Expand(s) ==
    LET v == s.ver IN
    CASE s.fam = "opts" /\ s.op = "QUERY" ->
           IF s.m \notin ValueModes(v) THEN {}
           ELSE {QRow(v, "none", 27, 1, o, s.m) : o \in LegalOpts(v)}
      [] s.fam = "opts" /\ s.op = "EXECUTE" ->
           IF s.m \notin ValueModes(v) THEN {}
           ELSE {ERow(v, "none", 16, DefRmid(v), 1, o, s.m) : o \in LegalOpts(v)}
      [] s.fam = "lead" /\ s.op = "QUERY" ->
           {QRow(v, "none", ql, c, o, m) : ql \in QLens, c \in ConsValid, o \in {{}, OptUniverse(v)}, m \in {NoVals, OneVal}}
      [] s.fam = "lead" /\ s.op = "EXECUTE" ->
           {ERow(v, "none", il, rl, c, o, m) : il \in IdLens, rl \in RmidLens(v), c \in ConsValid,
                                               o \in {{}, OptUniverse(v)}, m \in {NoVals, OneVal}}
      [] s.fam = "lead" /\ s.op = "BATCH" ->
           {BRow(v, "none", t, ks, c, o) : t \in 0..2, c \in ConsValid, o \in {{}, BatchOptUniverse(v)},
                ks \in {<<>>} \cup {<<k>> : k \in KidLenShapes}
                      \cup {<<Kid(0, 27, <<4>>), Kid(1, 16, <<>>), Kid(0, 1, <<-1, 300, 0>>)>>,
                            <<Kid(1, 1, <<0>>), Kid(1, 16, <<4, 4>>), Kid(0, 27, <<>>), Kid(1, 16, <<-1>>)>>}}
      [] s.fam = "kids0" -> {BRow(v, "none", 0, <<>>, 1, o) : o \in LegalBatchOpts(v)}
      [] s.fam = "kids" ->
           IF s.k \notin KidShapes(v) THEN {}
           ELSE {BRow(v, "none", 0, <<s.k>> \o t, 1, o) : t \in KidSeqs(KidShapes(v), MaxKids - 1), o \in LegalBatchOpts(v)}
      \* rows outside the set of valid bodies
      [] s.fam = "mal" /\ s.op = "QUERY" ->
           {QRow(v, "cons", 27, c, {}, m) : c \in ConsInvalid, m \in {NoVals, OneVal}}
           \cup {QRow(v, "qneg", -1, 1, {}, NoVals)}
           \cup (IF ValuesAreBytes(v) THEN {QRow(v, "unset3", 27, 1, {}, [vm |-> "pos", vals |-> <<4, -2>>])} ELSE {})
      [] s.fam = "mal" /\ s.op = "EXECUTE" ->
           {ERow(v, "cons", 16, DefRmid(v), c, {}, m) : c \in ConsInvalid, m \in {NoVals, OneVal}}
           \cup {ERow(v, "id0", 0, DefRmid(v), 1, {}, NoVals)}
           \cup (IF HasRmid(v) THEN {ERow(v, "rmid0", 16, 0, 1, {}, NoVals)} ELSE {})
      [] s.fam = "mal" /\ s.op = "BATCH" ->
           {BRow(v, "cons", 0, <<Kid(0, 27, <<4>>)>>, c, {}) : c \in ConsInvalid}
           \cup {BRow(v, "btype", t, <<Kid(0, 27, <<4>>)>>, 1, {}) : t \in {3, 255}}
           \cup {BRow(v, "kind", 0, ks, 1, {}) :
                    ks \in {<<Kid(2, 16, <<>>)>>, <<Kid(0, 27, <<4>>), Kid(2, 16, <<4>>)>>, <<Kid(255, 1, <<>>), Kid(1, 16, <<>>)>>}}
           \cup {BRow(v, "valneg", 0, ks, 1, {}) :
                    ks \in {<<Kid(0, 27, <<-3>>)>>, <<Kid(1, 16, <<4, -3, 4>>), Kid(0, 27, <<>>)>>}}
           \cup {BRow(v, "kid0", 0, <<Kid(k, 0, <<4>>)>>, 1, {}) : k \in {0, 1}}
           \cup (IF ValuesAreBytes(v) THEN {BRow(v, "unset3", 0, <<Kid(0, 27, <<-2, 4>>)>>, 1, {})} ELSE {})

(* Class of a row.                                                                  *)
(*   valid  - a valid body: the property demands successful partial decoding, the   *)
(*            reference's fields, and a byte-exact re-encoding.                     *)
(*   reject - the layout of the leading fields is undefined (unknown child kind):   *)
(*            the property demands an error.                                        *)
(*   open   - well-delimited but not a valid message (invalid consistency code or   *)
(*            batch type, negative or zero lengths where the protocol has none,     *)
(*            n < -2 values, `not set` before v4): the statement fixes no verdict   *)
(*            beyond no crash / no hang / no read past the frame.                   *)
Class(r) == IF r.mal = "none" THEN "valid" ELSE IF r.mal = "kind" THEN "reject" ELSE "open"

-----------------------------------------------------------------------------
Init == row \in Seeds
Next == \/ row.stage = "seed" /\ row' \in Expand(row)
        \/ row.stage = "row" /\ UNCHANGED row
Spec == Init /\ [][Next]_row

IsRow == row.stage = "row"

\* the layout and the arithmetic extraction agree
InvLayout ==
    IsRow => LET its == Items(row)
                 x == Extract(row)
             IN /\ SumLen(its, TRUE) = x.lead
                /\ x.lead <= SumLen(its, FALSE)
                \* leading items form a prefix of the layout and end with <consistency>
                /\ \A i \in 1..Len(its) : \A j \in 1..Len(its) : (i < j /\ its[j][4]) => its[i][4]
                /\ \E i \in 1..Len(its) : its[i][3] = "consistency" /\ its[i][4] /\ (i < Len(its) => ~its[i + 1][4])
                /\ \A i \in 1..Len(x.parts) : x.parts[i].off >= 0 /\ x.parts[i].off + x.parts[i].len <= x.lead - 2

\* the decoder agrees with the layout; re-encoding reproduces the body; truncation of the leading fields
\* is an error; truncation of the remainder is invisible to a partial decoder
InvDecode ==
    IsRow => LET B == Bytes(Items(row))
                 n == Len(B)
                 x == Extract(row)
                 d == Dec(row.ver, row.op, B, n)
             IN /\ n = SumLen(Items(row), FALSE)
                /\ Class(row) = "valid" =>
                      /\ d = x
                      /\ Reenc(row.op, B, n, d) = B
                      /\ \A k \in 0..(x.lead - 1) : ~Dec(row.ver, row.op, B, k).ok
                      /\ \A k \in x.lead..n : Dec(row.ver, row.op, B, k) = x
                /\ Class(row) = "reject" => ~d.ok

\* every valid row is exported exactly once with everything the driver needs
InvExport ==
    IsRow => LET its == Items(row)
                 B == Bytes(its)
             IN PrintT(<<"ROW", ToJson([ver |-> row.ver, op |-> row.op, mal |-> row.mal, cls |-> Class(row),
                                         qlen |-> row.qlen, idlen |-> row.idlen, rmidlen |-> row.rmidlen,
                                         cons |-> row.cons, opts |-> row.opts, vm |-> row.vm, vals |-> row.vals,
                                         btype |-> row.btype, kids |-> row.kids,
                                         items |-> its, x |-> Extract(row), len |-> Len(B),
                                         ck |-> Cksum(B, 1, 0)])>>)
=============================================================================
