SPECIFICATION Spec
CONSTANTS
  Tier = "quick"
INVARIANTS InvLayout InvDecode InvExport
CHECK_DEADLOCK FALSE
