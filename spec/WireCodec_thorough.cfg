SPECIFICATION Spec
CONSTANTS
  Tier = "thorough"
INVARIANTS InvLayout InvDecode InvExport
CHECK_DEADLOCK FALSE
