SPECIFICATION Spec
CONSTANTS
  MaxVersions = {"v3", "v4", "v5", "dse1", "dse2"}
  ListMode = "none"
  Overrides = {"LOCAL_QUORUM"}
  ReqCons = {"QUORUM"}
  Ops = {"QUERY", "EXECUTE", "BATCH", "PREPARE"}
  FlagMode = "all"
  RespMode = "all"
  Comps = {"none", "lz4", "snappy"}
  Export = {"REQ", "RESP"}
INVARIANTS TypeOK Transparent OverrideOnlyConsistency OverrideTarget SelectUntouched NoListNoChange UnlistedUntouched PrepareUntouched IdempotentOverride WireWellFormed ReplyTransparent TableAgrees
