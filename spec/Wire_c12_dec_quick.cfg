SPECIFICATION Spec
CONSTANTS
  MaxVersions = {"v3"}
  ListMode = "small"
  Overrides = {"ANY", "ONE", "TWO", "THREE", "QUORUM", "ALL", "LOCAL_QUORUM", "EACH_QUORUM", "SERIAL", "LOCAL_SERIAL", "LOCAL_ONE"}
  ReqCons = {"ANY", "ONE", "TWO", "THREE", "QUORUM", "ALL", "LOCAL_QUORUM", "EACH_QUORUM", "SERIAL", "LOCAL_SERIAL", "LOCAL_ONE"}
  Ops = {"QUERY", "EXECUTE", "BATCH"}
  FlagMode = "lean"
  RespMode = "one"
  Comps = {"none"}
  Export = {"DEC"}
INVARIANTS TypeOK Transparent OverrideOnlyConsistency OverrideTarget SelectUntouched NoListNoChange UnlistedUntouched PrepareUntouched IdempotentOverride WireWellFormed ReplyTransparent TableAgrees
