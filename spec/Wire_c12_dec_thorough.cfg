SPECIFICATION Spec
CONSTANTS
  MaxVersions = {"v4"}
  ListMode = "full"
  Overrides = {"ANY", "ONE", "TWO", "THREE", "QUORUM", "ALL", "LOCAL_QUORUM", "EACH_QUORUM", "SERIAL", "LOCAL_SERIAL", "LOCAL_ONE"}
  ReqCons = {"ANY", "ONE", "TWO", "THREE", "QUORUM", "ALL", "LOCAL_QUORUM", "EACH_QUORUM", "SERIAL", "LOCAL_SERIAL", "LOCAL_ONE"}
  Ops = {"QUERY", "EXECUTE", "BATCH"}
  FlagMode = "lean"
  RespMode = "one"
  Comps = {"none", "lz4"}
  Export = {"DEC"}
INVARIANTS TypeOK Transparent OverrideOnlyConsistency OverrideTarget SelectUntouched NoListNoChange UnlistedUntouched PrepareUntouched IdempotentOverride WireWellFormed ReplyTransparent TableAgrees
