SPECIFICATION Spec
CONSTANTS
  MaxVersions = {"v4", "dse2"}
  ListMode = "single"
  Overrides = {"LOCAL_QUORUM", "ONE"}
  ReqCons = {"ONE", "QUORUM"}
  Ops = {"QUERY", "EXECUTE", "BATCH"}
  FlagMode = "all"
  RespMode = "one"
  Comps = {"none", "lz4", "snappy"}
  Export = {"REQ"}
INVARIANTS TypeOK Transparent OverrideOnlyConsistency OverrideTarget SelectUntouched NoListNoChange UnlistedUntouched PrepareUntouched IdempotentOverride WireWellFormed ReplyTransparent TableAgrees
