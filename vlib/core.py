"""Shared machinery for the cql-proxy verification checks.

Every check is `vcheck run <Cxx> --tier quick|thorough`.  A check
  1. model-checks its TLA+ module(s) with TLC (the specification is the oracle),
  2. exports tables / behaviours from TLC as JSON,
  3. rebuilds the Go driver (`harness/cmd/vdrv`, build tag `verif`) against /repo's
     working tree and replays the TLC output into the real code and/or records
     traces from the real code,
  4. validates recorded traces against the Trace*.tla specifications with TLC,
  5. writes /verif/evidence/<id>.json.

Exit codes: 0 = property held on everything explored (KNOWN-FINDING lines allowed),
1 = violation (a line `VIOLATION property=<id> replay=<path>` is printed),
2 = inconclusive / infrastructure failure (never a verdict).
"""
import json
import os
import re
import shutil
import subprocess
import sys
import tempfile
import time

VERIF = os.path.dirname(os.path.dirname(os.path.abspath(__file__)))
REPO = os.environ.get("VERIF_REPO", "/repo")
SPEC = os.path.join(VERIF, "spec")
# (development only: VERIF_HARNESS / VERIF_EVIDENCE point a run at a copy of the harness whose go.mod replaces the project
# with a clean worktree, while a seeded change is applied to /repo; registered commands never set them)
HARNESS = os.environ.get("VERIF_HARNESS", os.path.join(VERIF, "harness"))
EVIDENCE = os.environ.get("VERIF_EVIDENCE", os.path.join(VERIF, "evidence"))
FINDINGS = os.path.join(VERIF, "known_findings.txt")
TLA_CP = "/opt/veriftools/tla/tla2tools.jar:/opt/veriftools/tla/CommunityModules-deps.jar"
NCPU = os.cpu_count() or 4


class Inconclusive(Exception):
    pass


def log(*a):
    print(*a, file=sys.stderr, flush=True)


# --------------------------------------------------------------------------- findings

class Findings:
    """known_findings.txt: `finding: property=Cxx key=<key> <text>` or
    `fixed: property=Cxx <commit> <text>`.  Read-only at run time."""

    def __init__(self, path=FINDINGS):
        self.entries = []  # (prop, key, text)
        if os.path.exists(path):
            for line in open(path):
                line = line.strip()
                if not line or line.startswith("#"):
                    continue
                m = re.match(r"finding:\s+property=(\S+)\s+key=(\S+)\s*(.*)", line)
                if m:
                    self.entries.append((m.group(1), m.group(2), m.group(3)))

    def match(self, prop, key):
        for p, k, t in self.entries:
            if p == prop and k == key:
                return t
        return None


# --------------------------------------------------------------------------- TLC

class TLCResult:
    def __init__(self):
        self.generated = 0
        self.distinct = 0
        self.depth = 0
        self.ok = False            # finished without error
        self.violated = None       # name of violated invariant / property, or "deadlock"
        self.error = None          # other error text
        self.output = ""
        self.wall = 0.0
        self.trace = []            # counterexample states (raw text blocks)
        self.coverage_zero = []
        self.printed = []          # values printed with PrintT


_STATE_RE = re.compile(r"^State (\d+): <(.*?)>\s*$")


def parse_tlc_output(out, res):
    m = None
    for m in re.finditer(r"(\d+) states generated, (\d+) distinct states found", out):
        pass
    if m:
        res.generated, res.distinct = int(m.group(1)), int(m.group(2))
    m = re.search(r"The depth of the complete state graph search is (\d+)", out)
    if m:
        res.depth = int(m.group(1))
    m = re.search(r"Invariant (\S+) is violated", out)
    if m:
        res.violated = m.group(1)
    if not res.violated:
        m = re.search(r"Action property (\S+) is violated", out)
        if m:
            res.violated = m.group(1)
    if not res.violated and ("Temporal properties were violated" in out or re.search(r"Temporal property \S+ was violated", out)):
        res.violated = "temporal"
    if not res.violated and re.search(r"Deadlock reached", out):
        res.violated = "deadlock"
    if not res.violated:
        m = re.search(r"The postcondition (\S+)? ?(?:has been|was) violated|Postcondition.*violated", out)
        if m:
            res.violated = "postcondition"
    if "Model checking completed. No error has been found" in out or \
            ("Finished in" in out and not res.violated and "Error:" not in out):
        res.ok = True
    if not res.ok and not res.violated:
        m = re.search(r"Error: (.*)", out)
        res.error = m.group(1) if m else "TLC did not complete"
    # counterexample trace
    cur = None
    for line in out.splitlines():
        ms = _STATE_RE.match(line)
        if ms:
            cur = {"n": int(ms.group(1)), "action": ms.group(2), "text": []}
            res.trace.append(cur)
        elif cur is not None:
            if line.strip() == "" or line.startswith("State ") or re.match(r"^\d+ states generated", line) \
                    or line.startswith("Error:") or line.startswith("Back to state") or line.startswith("Finished"):
                cur = None
            else:
                cur["text"].append(line)
    return res


def tla_to_py(text):
    """Parse a small subset of TLC's value syntax (records, sequences, sets, strings, ints,
    booleans, model values, functions written as (a :> b @@ c :> d)) into Python."""
    return _TlaParser(text).value()


class _TlaParser:
    def __init__(self, s):
        self.s = s
        self.i = 0

    def ws(self):
        while self.i < len(self.s) and self.s[self.i].isspace():
            self.i += 1

    def peek(self, t):
        self.ws()
        return self.s.startswith(t, self.i)

    def eat(self, t):
        self.ws()
        if not self.s.startswith(t, self.i):
            raise ValueError("expected %r at %d in %r" % (t, self.i, self.s[max(0, self.i - 20):self.i + 20]))
        self.i += len(t)

    def value(self):
        self.ws()
        s = self.s
        if self.peek("<<"):
            self.eat("<<")
            out = []
            while not self.peek(">>"):
                out.append(self.value())
                if self.peek(","):
                    self.eat(",")
            self.eat(">>")
            return out
        if self.peek("{"):
            self.eat("{")
            out = []
            while not self.peek("}"):
                out.append(self.value())
                if self.peek(","):
                    self.eat(",")
            self.eat("}")
            return {"__set__": out}
        if self.peek("[") :
            self.eat("[")
            out = {}
            while not self.peek("]"):
                self.ws()
                m = re.match(r"[A-Za-z_][A-Za-z0-9_]*", s[self.i:])
                k = m.group(0)
                self.i += len(k)
                self.eat("|->")
                out[k] = self.value()
                if self.peek(","):
                    self.eat(",")
            self.eat("]")
            return out
        if self.peek("("):
            self.eat("(")
            out = {}
            while True:
                k = self.value()
                self.eat(":>")
                v = self.value()
                out[json.dumps(k) if not isinstance(k, (str, int)) else k] = v
                if self.peek("@@"):
                    self.eat("@@")
                    continue
                break
            self.eat(")")
            return out
        if self.peek('"'):
            j = self.i + 1
            buf = []
            while s[j] != '"':
                if s[j] == "\\":
                    j += 1
                buf.append(s[j])
                j += 1
            self.i = j + 1
            return "".join(buf)
        m = re.match(r"-?\d+", s[self.i:])
        if m:
            self.i += len(m.group(0))
            return int(m.group(0))
        m = re.match(r"[A-Za-z_][A-Za-z0-9_]*", s[self.i:])
        if m:
            self.i += len(m.group(0))
            w = m.group(0)
            if w == "TRUE":
                return True
            if w == "FALSE":
                return False
            return w
        raise ValueError("cannot parse at %d: %r" % (self.i, s[self.i:self.i + 40]))


def parse_state_text(lines):
    """`/\\ var = value` blocks of a TLC state -> dict var -> python value."""
    text = "\n".join(lines)
    parts = re.split(r"^/\\ ", text, flags=re.M)
    out = {}
    for p in parts:
        p = p.strip()
        if not p:
            continue
        m = re.match(r"([A-Za-z_][A-Za-z0-9_]*) = (.*)$", p, flags=re.S)
        if m:
            try:
                out[m.group(1)] = tla_to_py(m.group(2))
            except Exception:
                out[m.group(1)] = m.group(2)
    return out


# --------------------------------------------------------------------------- context

class Ctx:
    def __init__(self, prop, tier, seed):
        self.prop = prop
        self.tier = tier
        self.seed = seed
        self.t0 = time.time()
        self.scratch = tempfile.mkdtemp(prefix="vcheck-%s-" % prop)
        self.findings = Findings()
        self.violations = []       # (key, text, replay_path)
        self.known = []            # (key, text)
        self.tlc_runs = []         # summaries
        self.states = 0
        self.transitions = 0
        self.assumptions = []
        self.notes = {}
        self._driver = {}
        self._specdir = None

    # ---- scratch
    def path(self, *a):
        p = os.path.join(self.scratch, *a)
        os.makedirs(os.path.dirname(p), exist_ok=True)
        return p

    def cleanup(self):
        shutil.rmtree(self.scratch, ignore_errors=True)

    def specdir(self):
        """Scratch copy of /verif/spec (TLC litters the directory it runs in)."""
        if self._specdir is None:
            d = os.path.join(self.scratch, "spec")
            shutil.copytree(SPEC, d)
            sw = tree_switches()
            subst = {"@SPINS@": "TRUE" if sw["retry_same_spins"] else "FALSE",
                     "@FORWARDS@": "TRUE" if sw["reprepare_fail_forwards"] else "FALSE",
                     "@HOLDS@": "TRUE" if sw["closing_holds_lock"] else "FALSE",
                     "@STICKS@": "TRUE" if sw["retry_same_sticks"] else "FALSE",
                     "@STOREUNDERREAD@": "TRUE" if sw.get("store_under_read_lock") else "FALSE",
                     "@SELECTIGNORES@": "TRUE" if sw.get("select_ignores_failure") else "FALSE",
                     "@CLOSINGFLAGUNSET@": "TRUE" if sw.get("closing_flag_unset") else "FALSE"}
            for f in os.listdir(d):
                if f.endswith(".cfg"):
                    t = open(os.path.join(d, f)).read()
                    for k, v in subst.items():
                        t = t.replace(k, v)
                    open(os.path.join(d, f), "w").write(t)
            self._specdir = d
        return self._specdir

    # ---- TLC
    def tlc(self, module, cfg=None, workers=None, timeout=1800, simulate=None, depth=None,
            dfs=False, extra=None, heap=None, count=True, name=None, coverage=False,
            deadlock=None, defines=None, cwd=None):
        """Run TLC on spec/<module>.tla with spec/<cfg>.  Returns TLCResult.
        `simulate` = "num=N" (string) switches to simulation mode."""
        d = cwd or self.specdir()
        cfg = cfg or (module + ".cfg")
        if workers is None:
            workers = min(NCPU, 16)
        meta = tempfile.mkdtemp(prefix="meta-", dir=self.scratch)
        java = ["java", "-XX:+UseParallelGC", "-Xss64m"]
        java.append("-Xmx%s" % (heap or "12g"))
        if dfs:
            java.append("-Dtlc2.tool.queue.IStateQueue=StateDeque")
        for k, v in (defines or {}).items():
            java.append("-D%s=%s" % (k, v))
        cmd = java + ["-cp", TLA_CP, "tlc2.TLC", "-metadir", meta, "-config", cfg,
                      "-workers", str(workers), "-seed", str(self.seed % (2 ** 31)), "-noGenerateSpecTE"]
        if simulate:
            cmd += ["-simulate", simulate]
        if depth:
            cmd += ["-depth", str(depth)]
        if coverage:
            cmd += ["-coverage", "1"]
        if deadlock is False:
            cmd += ["-deadlock"]
        cmd += (extra or [])
        cmd.append(module)
        t0 = time.time()
        env = dict(os.environ)
        env.pop("JAVA_TOOL_OPTIONS", None)
        try:
            p = subprocess.run(cmd, cwd=d, stdout=subprocess.PIPE, stderr=subprocess.STDOUT,
                               timeout=timeout, env=env)
            out = p.stdout.decode("utf-8", "replace")
        except subprocess.TimeoutExpired as e:
            subprocess.run(["pkill", "-f", meta], check=False)
            out = (e.stdout or b"").decode("utf-8", "replace") + "\nError: TLC timeout after %ds" % timeout
        shutil.rmtree(meta, ignore_errors=True)
        res = TLCResult()
        res.output = out
        res.wall = time.time() - t0
        parse_tlc_output(out, res)
        if coverage:
            res.coverage_zero = re.findall(r"<(\w+) line \d+, col \d+ to line \d+, col \d+ of module \w+>: 0:0", out)
        summary = {"module": module, "cfg": cfg, "generated": res.generated, "distinct": res.distinct,
                   "depth": res.depth, "ok": res.ok, "violated": res.violated, "wall_s": round(res.wall, 1)}
        if simulate:
            summary["simulate"] = simulate
        if name:
            summary["name"] = name
        self.tlc_runs.append(summary)
        if count and not simulate:
            self.states += res.distinct
            self.transitions += res.generated
        log("[tlc] %s %s: %d generated / %d distinct, depth %d, %.1fs%s%s" % (
            module, cfg, res.generated, res.distinct, res.depth, res.wall,
            " VIOLATED " + res.violated if res.violated else "",
            " ERROR " + res.error if res.error else ""))
        return res

    def tlc_must_pass(self, module, cfg=None, **kw):
        """Model-check a spec that describes the current tree: failure = machinery bug (exit 2)."""
        res = self.tlc(module, cfg, **kw)
        if not res.ok or res.violated:
            tail = "\n".join(res.output.splitlines()[-60:])
            raise Inconclusive("TLC run %s/%s did not pass (violated=%s error=%s)\n%s" % (
                module, cfg, res.violated, res.error, tail))
        return res

    def apalache(self, module, args, timeout=600, name=None):
        """Runs `apalache-mc check <args> <module>.tla` in a scratch copy of the spec directory; returns "NoError",
        "Error" (an invariant is violated) or raises Inconclusive (tool failure / timeout)."""
        d = os.path.join(self.specdir(), "apa-%d" % len(self.tlc_runs))
        os.makedirs(d, exist_ok=True)
        for f in os.listdir(self.specdir()):
            if f.endswith(".tla"):
                shutil.copy(os.path.join(self.specdir(), f), d)
        t0 = time.time()
        try:
            p = subprocess.run(["apalache-mc", "check"] + list(args) + [module + ".tla"], cwd=d, stdout=subprocess.PIPE,
                               stderr=subprocess.STDOUT, timeout=timeout)
        except subprocess.TimeoutExpired:
            raise Inconclusive("apalache %s %s timed out" % (module, " ".join(args)))
        out = p.stdout.decode("utf-8", "replace")
        m = re.search(r"The outcome is: (\w+)", out)
        outcome = m.group(1) if m else None
        log("[apalache] %s %s: %s, %.1fs" % (module, " ".join(args), outcome, time.time() - t0))
        self.tlc_runs.append({"name": name or module, "engine": "apalache", "module": module, "args": list(args), "outcome": outcome,
                              "seconds": round(time.time() - t0, 1)})
        shutil.rmtree(d, ignore_errors=True)
        if outcome not in ("NoError", "Error"):
            raise Inconclusive("apalache %s %s failed:\n%s" % (module, " ".join(args), out[-2000:]))
        return outcome

    # ---- Go driver
    def go_env(self):
        env = dict(os.environ)
        env["GOFLAGS"] = "-mod=mod"
        env["GOPROXY"] = "off"
        env.pop("GOSUMDB", None)
        env.setdefault("GOCACHE", os.path.expanduser("~/.cache/go-build"))
        return env

    def build_driver(self, race=False, cmd_name="vdrv"):
        """Builds harness/cmd/<cmd_name> with -tags verif against /repo's working tree."""
        key = cmd_name + ("-race" if race else "-plain")
        if key in self._driver:
            return self._driver[key]
        out = self.path("bin", key)
        cmd = ["go", "build", "-tags", "verif", "-o", out]
        if race:
            cmd.insert(2, "-race")
        cmd.append("./cmd/" + cmd_name)
        t0 = time.time()
        p = subprocess.run(cmd, cwd=HARNESS, env=self.go_env(), stdout=subprocess.PIPE, stderr=subprocess.STDOUT)
        if p.returncode != 0:
            raise Inconclusive("driver build failed:\n" + p.stdout.decode("utf-8", "replace")[-4000:])
        log("[go] built driver (%s) in %.1fs" % (key, time.time() - t0))
        self._driver[key] = out
        return out

    def build_proxy_binary(self):
        if "proxybin" in self._driver:
            return self._driver["proxybin"]
        out = self.path("bin", "cql-proxy")
        env = dict(os.environ)
        env["GOPROXY"] = "off"
        env["GOFLAGS"] = "-mod=mod"
        # build through the harness module so /repo/go.mod is never rewritten
        p = subprocess.run(["go", "build", "-tags", "verif", "-o", out, "github.com/datastax/cql-proxy"],
                           cwd=HARNESS, env=env, stdout=subprocess.PIPE, stderr=subprocess.STDOUT)
        if p.returncode != 0:
            raise Inconclusive("proxy binary build failed:\n" + p.stdout.decode("utf-8", "replace")[-4000:])
        self._driver["proxybin"] = out
        return out

    def drv(self, args, race=False, timeout=900, stdin=None, env=None, check=True, cmd_name="vdrv"):
        """Run the driver harness/cmd/<cmd_name>; returns (rc, stdout, stderr)."""
        exe = self.build_driver(race, cmd_name)
        e = dict(os.environ)
        e["VERIF_SEED"] = str(self.seed)
        e["VERIF_TIER"] = self.tier
        e["VERIF_SCRATCH"] = self.scratch
        if race:
            e["GORACE"] = "halt_on_error=0 history_size=5"
        e.update(env or {})
        t0 = time.time()
        try:
            p = subprocess.run([exe] + list(args), stdout=subprocess.PIPE, stderr=subprocess.PIPE,
                               timeout=timeout, input=stdin, env=e, cwd=self.scratch)
        except subprocess.TimeoutExpired:
            raise Inconclusive("driver %s timed out after %ds" % (" ".join(args[:3]), timeout))
        log("[drv] %s rc=%d %.1fs" % (" ".join(str(a) for a in args[:6]), p.returncode, time.time() - t0))
        out, err = p.stdout.decode("utf-8", "replace"), p.stderr.decode("utf-8", "replace")
        if check and p.returncode not in (0,):
            raise Inconclusive("driver %s failed rc=%d\n%s\n%s" % (" ".join(args[:3]), p.returncode, out[-2000:], err[-4000:]))
        return p.returncode, out, err

    # ---- verdicts
    def violation(self, key, text, replay=None):
        """Report a violation with stable key `key`.  Known findings are downgraded."""
        known = self.findings.match(self.prop, key)
        if known is not None:
            if key not in [k for k, _ in self.known]:
                self.known.append((key, text))
                print("KNOWN-FINDING: property=%s key=%s %s" % (self.prop, key, text), flush=True)
            return False
        if key in [k for k, _, _ in self.violations]:
            return True
        os.makedirs(os.path.join(EVIDENCE, "replay"), exist_ok=True)
        safe = re.sub(r"[^A-Za-z0-9_.-]+", "_", key)[:80]
        path = os.path.join(EVIDENCE, "replay", "%s-%s-%d.json" % (self.prop, safe, self.seed))
        with open(path, "w") as f:
            json.dump({"property": self.prop, "key": key, "what": text, "seed": self.seed,
                       "tier": self.tier, "replay": replay}, f, indent=1, default=str)
        self.violations.append((key, text, path))
        print("VIOLATION property=%s replay=%s" % (self.prop, path), flush=True)
        print("  key=%s %s" % (key, text), flush=True)
        return True

    def write_evidence(self, level, coverage, extra=None):
        os.makedirs(EVIDENCE, exist_ok=True)
        cov = dict(coverage)
        if level == "model_checking":
            cov.setdefault("states", self.states)
            cov.setdefault("transitions", self.transitions)
        cov["tlc_runs"] = self.tlc_runs
        cov["known_findings_reported"] = [k for k, _ in self.known]
        cov.update(self.notes)
        ev = {
            "property_id": self.prop,
            "tier": self.tier,
            "seed": self.seed,
            "level": level,
            "coverage": cov,
            "assumptions": self.assumptions,
            "wall_s": round(time.time() - self.t0, 2),
            "violations": len(self.violations),
        }
        if extra:
            ev.update(extra)
        tmp = os.path.join(EVIDENCE, ".%s.json.tmp" % self.prop)
        with open(tmp, "w") as f:
            json.dump(ev, f, indent=1, default=str)
        os.replace(tmp, os.path.join(EVIDENCE, "%s.json" % self.prop))


def read_ndjson(path):
    out = []
    with open(path) as f:
        for line in f:
            line = line.strip()
            if line:
                out.append(json.loads(line))
    return out


def tree_switches():
    """Switches that make the specifications describe the *current* tree (DESIGN §8)."""
    with open(os.path.join(SPEC, "tree_switches.json")) as f:
        return json.load(f)


def validate_trace(ctx, module, events, cfg, name="trace", timeout=1200, cfgfile=None):
    """Run TLC on Trace<module> over `events` (list of dicts).  Returns dict with keys
    bad (list of violation records), consumed, total, states, output.  Raises Inconclusive when
    the log is not consumed completely (spec/harness mismatch, never a verdict)."""
    d = os.path.join(ctx.scratch, "tv-%s-%d" % (name, len(ctx.tlc_runs)))
    shutil.copytree(SPEC, d)
    with open(os.path.join(d, "trace.ndjson"), "w") as f:
        for e in events:
            f.write(json.dumps(e) + "\n")
    with open(os.path.join(d, "trace_cfg.json"), "w") as f:
        json.dump(cfg, f)
    res = ctx.tlc(module, cfgfile or (module + ".cfg"), workers=1, timeout=timeout, count=False, name=name, cwd=d, heap="8g")
    m = None
    for m in re.finditer(r'<<"VERDICT", (".*")>>', res.output):
        pass
    hw = re.search(r'<<"HW", (\d+)>>', res.output)
    out = {"total": len(events), "states": res.distinct, "consumed": 0, "bad": [], "output": res.output}
    if m:
        v = json.loads(json.loads(m.group(1)))
        out["bad"] = v["bad"]
        for i, b in enumerate(out["bad"]):
            if i < len(v.get("at", [])):
                b["at"] = v["at"][i]
        out["consumed"] = v["consumed"]
    else:
        k = int(hw.group(1)) if hw else 0
        nxt = events[k - 1] if 0 < k <= len(events) else None
        tail = "\n".join(res.output.splitlines()[-40:])
        raise Inconclusive("trace %s not consumed: stopped at event %s of %d: %s\n%s" % (name, k, len(events), nxt, tail))
    shutil.rmtree(d, ignore_errors=True)
    return out
