"""Generates /verif/MANIFEST.json from the table below (python3 -m vlib.manifest)."""
import json
import os
import subprocess

from . import core

HOOK_COMMITS = []  # filled from git log of /repo (commits whose subject starts with "verif:")

CHECKS = {
    "C15": dict(
        category="model_checking",
        technique="TLA+ spec LoadBalancer.tla model-checked with TLC; every TLC behaviour replayed through the real load balancer (spec->code replay), concurrent replay under the race detector",
        text="TLC exhaustively checks PlanExactlyOnce, ConsecutiveStarts, Balance and SnapshotImmutable on LoadBalancer.tla "
             "(3-4 hosts, 3 membership events, 3 plans, all interleavings of events, plan creation and Next calls). Every behaviour "
             "of the export configuration (the complete behaviour tree up to the bound) and seeded long simulations are replayed through "
             "proxycore.NewRoundRobinLoadBalancer's public API, comparing every yielded host with the specification, with the Go counter "
             "preset around 0, 2^31 and 2^32; a sample is replayed with concurrent planners under -race.",
        note="Bounded: <=5 hosts, <=12 events in simulation, <=4 hosts/3 events exhaustively. Assumes Add is never delivered for a present host "
             "(Cluster.mergeHosts contract). Counter-width conformance is sampled at residues of the ideal counter, not proven.",
        design="§6 C15",
    ),
}

REQ_NOTE = ("Observable-level specification: internal goroutine interleavings are covered only through what they make visible at "
            "the sockets and hooks; bounded to <=4 hosts, <=2 connections per host, outcome alphabet of 16 classes, attempt histories "
            "of one request exhaustively (two requests in thorough tier). Trusts the fake backend (reference codecs) and the harness tracer ordering.")
REQ_TECH = ("TLA+ spec RequestObs.tla model-checked with TLC (RequestObsMC); design-level model Request.tla (goroutines, locks) checked by TLC and "
            "shown to refine RequestObs (RequestRefine); TLC-generated outcome scripts replayed against the real proxy; recorded traces validated "
            "by TLC against TraceRequestObs.tla (trace validation, code->spec); hazard schedules of the design model replayed with gated hooks")
for _pid, _txt in {
    "C01": "exactly one reply per request: AtMostOneReply / AllAnsweredAtRest on the spec; every recorded trace is checked for duplicate replies, replies "
           "after completion and - at quiescence - requests never answered although every attempt was answered or dropped; stages include connections the "
           "proxy gives up itself (silent nodes), a client that reads late and one that never reads (thousands of 20 KiB answers queued); "
           "Pending.tla (the stream-id pool and pending map of a backend connection, one action per container operation) checked by TLC, and call/return "
           "histories of the real table under concurrent goroutines validated against it (TLC searches the interleaving of the unobservable steps): a stored request "
           "must be found under its stream id exactly once; Conn.tla (the connection object) likewise: the wire carries the accepted frames in order, each once, "
           "nothing accepted is dropped while the connection is open, Write fails only on a closed connection",
    "C02": "replies carry the token and node of the attempt they answer, on the submitting client's stream; backend stream ids are never reused while in use; "
           "many clients with equal stream ids, delayed and reordered responses; a volume stage that uses every backend stream id of a connection and "
           "answers a heartbeat after the proxy gave up on it; pipelined and retried writes under a consistency override; short-lived clients that hang up with responses outstanding; "
           "bursts of pipelined requests which the proxy answers itself (request class LOCAL of the specification: exactly its own rows, never a backend); "
           "nodes that stop reading and then drop their connections with bulky requests queued; "
           "a second frame on a stream is a violation too; Pending.tla / TracePending.tla (see C01): a stream id is handed out only while no request holds it",
    "C04": "NonIdemNotReexecuted on the spec for all outcome/drop sequences; in traces every backend execution of a request that is not positively idempotent "
           "must follow only outcomes that guarantee the previous attempt was not applied; statements in many spellings (function names in any case, "
           "qualified, inside collections / tuples / nested calls), EXECUTE and BATCH with prepared children in every position, graph requests as traversal "
           "text, as CQL text and as EXECUTE of an idempotent prepared statement; connections closed by the proxy itself with requests outstanding",
    "C05": "the retry decision table (Decide) and the traversal rules are checked by TLC (EachHostOnce, AttemptsBounded, SucceedsIfSomeHostOk, NoHostsIffAllTried, "
           "ReturnsFirstFinal, termination under fairness); every terminal attempt history is replayed and the real attempt sequence/reply must be the prescribed one; "
           "error frames dressed with compression or warnings; a pool with one slot empty (a 'no connection for the host' failure is justified only when none of the "
           "host's connections was usable); connections the proxy gives up itself (only what the client is told is judged there)",
    "C08": "the prepare path of RequestObs (UNPREPARED -> re-prepare on the same connection -> re-execute on the same host; failed re-prepare -> next "
           "host; NeverUnpreparedWhileCached) checked by TLC; scenario families against the real proxy: hosts that never saw the PREPARE, scripted "
           "UNPREPARED with re-prepare ok/error/connection loss, node restarts, a node joining after start-up, lz4 and snappy sessions, batches with "
           "several prepared children (one re-prepare round per child, re-executed on the re-prepared host), the same statement prepared through sessions "
           "of different compression / protocol version, and a re-prepare storm (nodes forget statements after two executions, 64 concurrent requests: "
           "a re-PREPARE must travel on the stream registered for it, a request must not hang after its re-preparation)",
}.items():
    CHECKS[_pid] = dict(category="model_checking", technique=REQ_TECH, text=_txt, note=REQ_NOTE, design="§6 " + _pid)

CHECKS["C11"] = dict(
    category="exploration",
    technique="TLA+ decision table WireCodec.tla (layout, extraction, decoder and re-encoder from the protocol specs; TLC checks their agreement on every "
              "row and all prefixes) exported as JSON; Go driver vdrv-codec: differential replay against the reference codec and the real partial codecs",
    text="every TLC-enumerated request shape (v3,v4,v5,DSEv1,DSEv2 x QUERY/EXECUTE/BATCH x all option subsets legal for the version x value lists incl. "
         "null/unset/empty/large x 0..4 batch children x id/string lengths) is concretised by the reference codec, byte-identical to the specification's "
         "layout, and replayed into codecs.CustomRawCodec on 5 decode paths: same query string / id / children / consistency as the specification and the "
         "reference decoder, byte-exact re-encoding, error on every truncation inside the leading fields, no panic/hang/out-of-input slice on all prefixes, "
         "seeded mutants and random bytes; value counts at the boundaries of their 16-bit field; a size sweep (BATCHes of 5000 children, QUERY / EXECUTE "
         "with one large value, body length 40 KB .. 2.7 MB in steps of about 4 KB)",
    note="Trusts go-cassandra-native-protocol as the definition of a valid body and its lz4/snappy compressors; optional parameters carry fixed numeric "
         "values, contents are filler + seeded random; well-delimited but invalid bodies (bad consistency/batch type, n<-2 values, zero/negative lengths) "
         "and cuts in the opaque remainder carry no accept/reject verdict; inputs announcing >1 MiB strings are not generated as mutants; arbitrary bytes "
         "are random, not coverage-guided.",
    design="§6 C11")
CHECKS["C19"] = dict(
    category="exploration",
    technique="TLA+ decision table + handshake machine (AstraTLS.tla), TLC-exported rows replayed with freshly minted x509 chains against the real "
              "resolver / endpoints / proxycore.Connect",
    text="For every abstract server chain (7 signers - incl. a lookalike of a genuine chain and a server that shows a genuine certificate behind one of its "
         "own making - x extra cert x 3 SANs x 5 validities, two of them time-shifted: valid when the endpoint was made and "
         "expired at the handshake, and the reverse; + empty) x {metadata, contact-point node, peers node} x "
         "{DNS, IP bundle host} x {TLS1.2, 1.3} the real code accepts exactly the chains that verify against the bundle CA for the bundle host now; "
         "rejected servers complete no handshake, see no client certificate and receive zero application bytes; accepted servers see the bundle's "
         "client certificate and the contact point / host id as SNI.",
    note="Bundles are zips built in memory and loaded by astra.LoadBundleZip (a decoy bundle with the OTHER CA is loaded in the same process "
         "first); hosts 'localhost' and '127.0.0.1'; Go crypto/tls servers; CA validity not varied.",
    design="§6 C19")
CHECKS["C20"] = dict(
    category="exploration",
    technique="TLA+ decision table (Config.tla) of the documented option tables and validity predicate; every row started through proxy.Run in-process "
              "(thorough: and the real binary) against the fake backend, effects observed on the wire",
    text="Every documented spelling of protocol-version / max-protocol-version / consistency names (all letter cases in thorough) via flag, environment "
         "and YAML selects exactly the named value (STARTUP version at the backend, client version gate, consistency seen at the backend); every invalid "
         "configuration class of the statement returns non-zero and leaves no listener; unknown names include near misses of the documented ones (a wire code "
         "plus 256, a sign or leading zero, the prefix of the other family, a letter too many).",
    note="Version order from the help text, v5-vs-DSE pairs left open; malformed YAML syntax / unreadable bundle / source precedence are only observed "
         "(the statement does not name them); 'started' = --bind accepts TCP.",
    design="§6 C20")

CHECKS["C06"] = dict(
    category="exploration",
    technique="TLA+ decision-table spec Idempotency.tla (grammar as derivation system, three-valued ground truth, invariants Disjoint/Compositional/"
              "Monotone/Roots) enumerated and simulated by TLC; exported rows replayed into parser.IsQueryIdempotent by harness/cmd/vdrv-idem; seeded "
              "byte-level mutation and child-process deep-nesting probes for totality",
    text="every abstract CQL statement derivable within the weight budget (exhaustive TLC enumeration of the grammar's derivation system; thorough: "
         "4.1e5 sentences, plus 4e4 seeded deep derivations to term depth 7) is rendered in 8 spellings and classified by the real "
         "parser.IsQueryIdempotent: must-be-false rows (now()/uuid() anywhere, LWT, counter/list/ambiguous update ops, delete by index, counter batch, "
         "non-DML, garbage) are never reported idempotent, plain mutations and SELECT always are, and the answer never depends on case/white space/;/"
         "quoting/qualification; byte-level mutants and deep-nesting probes never panic, hang, crash or return idempotent together with a parse error",
    note="Bounded: weight <=3 exhaustive (collections/arg lists/batches <=2), random derivations to weight 7/width 3. Trusts the concretiser render.go "
         "(abstract sentence -> CQL text; all spellings equivalent under CQL lexical rules). Verdict deliberately open (stability only) for non-now/uuid "
         "function calls, casts, col +/- primitive, non-mutation WHERE forms, truncated statements. Totality part has no TLA+ oracle beyond Garbage => "
         "not idempotent. Known finding: dollar-quoted strings.",
    design="§6 C06")
CHECKS["C07"] = dict(
    category="model_checking",
    technique="TLA+ spec Session.tla model-checked with TLC; traces of concurrent USE/data histories recorded from the real proxy validated by TLC "
              "against TraceSession.tla (trace validation, code->spec)",
    text="TLC checks ForwardInClientKs, OnlyValidKs, FailedUseKeepsKs and Isolation on all interleavings of UseConnect/UseStore/UseReply/Forward of 3 "
         "clients; in recorded traces every data request must arrive at the backend on a connection whose keyspace (as the backend folds it), protocol "
         "version and compression are the submitting client's at submission time, a valid USE is answered SET_KEYSPACE with the folded name, an invalid "
         "one with an error carrying the backend's message and no change of keyspace; histories include quoted / mixed-case / non-existent keyspaces, "
         "v3/v4, none/lz4/snappy and all clients switching to the same new keyspace at the same instant; every node restarting after the USEs; a node "
         "joining when the clients' lz4 / snappy sessions already exist (its requests must travel on connections of the client's own session: "
         "TraceRequestObs)",
    note="Each client is sequential (a USE is answered before its next frame); the failed-USE check recognises the backend's message text, not its "
         "error code (the proxy documents a server error carrying the message); trusts the fake backend's USE semantics.",
    design="§6 C07")
CHECKS["C13"] = dict(
    category="model_checking",
    technique="TLA+ behavioural spec ClientConn.tla model-checked with TLC; TLC-exported behaviours with allowed-outcome sets and a probe table replayed by "
              "harness/cmd/vdrv-handshake against the in-process proxy (spec->code); concrete version/opcode byte sweep judged by the exported table; per-run "
              "corrupted-oracle self-test",
    text="OPTIONS/STARTUP/REGISTER get exactly one SUPPORTED/READY/ERROR and never reach the backend; every known version above the configured maximum or "
         "below v3 gets exactly one protocol error naming the version in that version, is not forwarded and leaves the connection and its state untouched "
         "(unknown version bytes: that error or a close, never forwarded); an unsupported compression gets only an error; a supported one (any letter case) "
         "switches this connection only, both directions - as invariants of ClientConn.tla over all <=4-frame sequences on 2 connections for MaxVersion "
         "3,4,5,DSEv1,DSEv2, and every exported sequence plus the full single-frame table replayed against the real proxy over raw sockets, every second "
         "deterministic multi-frame sequence in ONE write per connection (STARTUP and the frames behind it back to back)",
    note="Observable-level spec. Sequence alphabet of 6 (quick) / 8-12 (thorough) frame classes, length 4, 2 connections; full alphabet only as single "
         "frames in 4 connection states; late extra frames looked for during a 25 ms quiet window; 'forwarded' observed by hook pending.store plus the fake "
         "backend's token log; response/undefined opcodes, direction bit, hostile bodies on accepted versions, PREPARE/EXECUTE/BATCH/AUTH_RESPONSE, snappy "
         "on v5, REGISTER/QUERY before STARTUP left open (recorded, not judged); no trace validation.",
    design="§6 C13")
CHECKS["C18"] = dict(
    category="exploration",
    technique="lock-discipline invariants of Session.tla / Request.tla checked by TLC; the specification-driven concurrent scenario families (request "
              "lifecycle with drops and re-prepares, USE histories, event fan-out, membership-changing fault sequences of Topology.tla under request load, "
              "gated hazard schedules) executed against the real proxy under the Go race detector",
    text="Every scenario family of C01/C02/C07/C08/C14/C16 is executed with the proxy in-process in a -race build; any detector report whose two stacks are in "
         "github.com/datastax/cql-proxy, and any 'concurrent map' abort, is a violation keyed by the pair of access sites. The TLA+ models contribute the lock "
         "discipline of the design (TableWriteExclusive, MutexOK) and the schedules; the memory-model verdict is the detector's.",
    note="A TLA+ model cannot observe Go's memory model: this check is only partially inside the technique (DESIGN §7). The detector reports only races that "
         "the executed schedules exhibit. All scenarios but the gated ones run with the hook sink off (its mutex would order the proxy's goroutines).",
    design="§6 C18, §7")

CHECKS["C10"] = dict(
    category="exploration",
    technique="TLA+ decision tables SystemTables.tla (configurations with expected ring; selects with expected projection) checked and exported by TLC; "
              "rows replayed end-to-end into in-process proxies by harness/cmd/vdrv-systables; disagreements keyed by minimal abstract feature set",
    text="for every peer list of 0..5 addresses in every order (plus stride-permuted lists of 10/12/16), own entry present/absent/no rpc-address, DC "
         "none/all/mixed, tokens none/all, DSE or not, every proxy of the group is really started and its system.local/system.peers answers (QUERY and "
         "PREPARE+EXECUTE) for every selector list of length <=2 (+ reduced length 3, + identifier-spelling variants) have exactly the specified columns, "
         "decode under the advertised types, carry the configured/backend facts, v3 host ids, count = row count, and proxies sharing a list present "
         "identical rings with computed tokens starting at the minimum token and strictly increasing in address order",
    note="Bounded enumeration, no proof beyond the bounds; concrete IPv4/IPv6 addresses are a seeded order-preserving sample (16-byte order); even token "
         "spacing, rack/cluster_name/schema_version values, `*` column order, the row count of aggregate answers and the data center of DC-less peers in "
         "mixed lists are not asserted; trusts the fake backend and the reference codecs of go-cassandra-native-protocol; protocol v4 only.",
    design="§6 C10")

CHECKS["C14"] = dict(
    category="model_checking",
    technique="TLA+ spec Events.tla model-checked with TLC (EventsMC); traces of seeded connect/register/disconnect/event/failover histories recorded from "
              "the real proxy validated by TLC against TraceEvents.tla (trace validation, code->spec)",
    text="TLC checks OnlySchema, OnlyRegistered, MustSubsetMay and DeliveredAtRest over all interleavings of 3 clients connecting, registering for any "
         "subset of event types (also twice), disconnecting, and backend events of the three kinds; in recorded traces every EVENT frame a client receives "
         "must be a schema event the backend emitted, on stream -1, with the backend's content, at most once per client, only for clients that registered "
         "for SCHEMA_CHANGE, and at quiescence every registered-and-connected client must have received every schema event; histories include v3/v4 "
         "clients, lz4/snappy, and control-connection failover between events",
    note="Registration and disconnection race with the fan-out, so each event carries must/may sets; events are emitted only while a registered control "
         "connection exists (events in flight on a dying connection are outside the statement); missing deliveries are judged after a quiescence window.",
    design="§6 C14")
CHECKS["C16"] = dict(
    category="model_checking",
    technique="TLA+ specs Topology.tla (the select loop of Cluster.stayConnected - event debouncing, refresh timer, refresh, fail-over - against an "
              "environment of faults; QuiescentConverged, Settles) and Backoff.tla (delay table with bounds) checked and exported by TLC; fault sequences "
              "applied to the real proxy with the timing of the exported proxy state (settled / inside the refresh window / control connection just lost) "
              "and compared after each settled fault (spec->code replay); the sequences that a model with a hazard switch fails on are replayed first; "
              "delays observed at verif hooks and table rows replayed into NewReconnectPolicyWithDelays; BackendHandshake.tla (the handshake every "
              "replaced connection goes through: version downgrade chain, password / DSE / unknown SASL authentication, REGISTER, USE) exported row "
              "by row and replayed against ConnectCluster, the cluster's reconnect and ConnectSession with a fake backend playing the row",
    text="For every fault sequence (node add / remove / unlist / stop / start / restart, pooled / control / all connections dropped, heartbeat silence; "
         "<=4 hosts, <=4 faults; quick tier a seeded sample) the real proxy converges after every fault to routing exactly the nodes that are listed and "
         "up, re-establishes the control connection (failing over to another host) and reports zero outage; with every node down the outage grows and it "
         "returns to zero afterwards; reconnect delays stay within [min(base,max), max], restart from the attempt-0 delay after a successful connect, and "
         "every row of the Backoff table (bases up to 12 h, attempts up to 70) holds in the real calculator",
    note="Time is abstracted to 'converged within a bounded wait' (8 s per fault, refresh window shortened to 100 ms by a verif hook); the readiness and "
         "liveness HTTP endpoints of the real binary are polled along the behaviours of Readiness.tla (ticks of 1 s, sampled mid-tick); heartbeat "
         "silence is exercised in the thorough tier only.",
    design="§6 C16")

CHECKS["C03"] = dict(
    category="exploration",
    technique="TLA+ Wire.tla (Transparent / ReplyTransparent) model-checked with TLC; exported REQ/RESP tables replayed end-to-end by vdrv-wire; identity oracle",
    text="every TLC-enumerated request shape (opcode x statement class x max-version x version x flag subsets x none/lz4/snappy x compressed) and response "
         "shape (every RESULT kind, every error code, flag subsets, compressed or not) is sent through the real proxy with seeded contents up to 8 MiB; "
         "header version/flags/opcode/length and wire body are compared byte by byte in both directions; every fourth frame travels in two TCP segments cut inside its "
         "header; in the burst stage a client connection that the proxy closes is a violation",
    note="two-node fake backend with reference codecs; responses absorbed by the retry policy are not observable (is_bootstrapping never; "
         "server/overloaded/truncate only for non-idempotent requests); contents random below the abstract row; no v5 segment framing",
    design="§6 C03")
CHECKS["C12"] = dict(
    category="exploration",
    technique="TLA+ Wire.tla (OverrideOnlyConsistency, OverrideTarget, SelectUntouched, NoListNoChange, IdempotentOverride) model-checked with TLC; DEC/REQ "
              "tables replayed against the in-process proxy configured through VerifSetUnsupportedWriteConsistencies",
    text="every decision row (unsupported list in {empty, singletons, pairs, all} x override x 11 consistencies x statement class, incl. prepared SELECT / "
         "write / unknown id) of every enumerated configuration is run end to end with round-robin frame shapes; the backend's reference decode is compared "
         "field by field with what was sent, only the consistency may differ and only where the TLC table says so; well-framedness and decompression are checked; "
         "in a pipelined workload with retries and re-preparations every write that reaches a backend - first attempt or later - must carry the override",
    note="verdict left open for EXECUTE of ids unknown to the proxy; compression flag of re-encoded frames not asserted; quick tier enumerates adjacent pairs "
         "and two overrides per list; single-node backend.",
    design="§6 C12")
CHECKS["C17"] = dict(
    category="exploration",
    technique="TLA+ spec Hostile.tla (classes of hostile client/backend behaviour, allowed offender outcomes, ProcessAlive) enumerated by TLC; sequences "
              "replayed against the real proxy binary with liveness and canary checks; design-level spec Conn.tla (the connection object: callers of Write / Close, "
              "writer, reader, peer) model-checked with TLC incl. liveness, histories of the real proxycore.Conn validated by TLC against TraceConn.tla",
    text="Conn.tla: once a connection is closed or its peer gone nobody stays blocked in Write, writer and reader end, recv.Closing is called exactly once - "
         "checked on the model for every interleaving and on recorded histories of the real object (peer that stalls until the 1024-entry queue is full, Close and "
         "peer loss while callers wait, concurrent Close, a Receiver that refuses a frame); "
         "every abstract class of hostile client input (truncated/oversized/zero declared lengths, garbage, response direction, wrong/unknown opcodes and "
         "versions, compression flag abuse, malformed string/map/batch lengths, boundary values in every length / count field of QUERY, PREPARE, EXECUTE, BATCH, REGISTER, STARTUP and "
         "AUTH_RESPONSE bodies, hostile USE / PREPARE keyspace / query text / REGISTER / STARTUP / "
         "AUTH_RESPONSE contents) and hostile backend reply (unknown stream, wrong opcode, short error, garbage, unsolicited event, truncated result, "
         "bogus UNPREPARED, compression flag) is sent - every listed variant at least once, in sequences covering all classes (thorough: all ordered "
         "pairs) - to the real binary under several --max-protocol-version settings; the process stays alive, the offender sees an allowed outcome, and a "
         "canary client gets a locally answered and a forwarded query right after every event; HostileTLS.tla: the binary with a TLS listener, "
         "offenders that stall or misbehave inside the TLS handshake and keep their sockets open - the client connected before and a new client must be served "
         "after every step",
    note="abstract classes with listed variants and seeded contents, not coverage-guided fuzzing (DESIGN §7); declared frame lengths up to 15 MiB, declared field lengths up to 2^31-1; canary retries "
         "for 8 s because a backend connection torn down by garbage returns only after the reconnect delay.",
    design="§6 C17, §7")

CHECKS["C09"] = dict(
    category="exploration",
    technique="TLA+ decision table plus a small connection-dispatch model (Intercept.tla) checked and exported by TLC; behaviours replayed into "
              "parser.IsQueryHandled and into the in-process proxy against a fake backend",
    text="every row of the intercept decision table (current keyspace x qualifier x table spelling incl. case/quote variants and look-alikes x "
         "SELECT/non-SELECT/USE shapes) x {QUERY, PREPARE+EXECUTE, PREPARE+USE+EXECUTE, USE+QUERY, failed USE+QUERY, PREPARE carrying a keyspace of its own (DSEv2) + EXECUTE} is answered locally iff the TLA+ "
         "oracle says so, both by parser.IsQueryHandled (7 spellings each, plus comment forms) and by the running proxy (no client frame reaches the "
         "fake backend for local steps; forwarded steps do reach it). TLC checks NeverForwardSystemLocalOrPeers, UserKeyspaceForwarded, "
         "OnlyUseAndSelectLocal, LookAlikeForwarded, QualifierWins, spelling irrelevance and ExecuteFollowsPrepare on the table.",
    note="finite enumerated spellings and shapes; protocol v4 and DSEv2, one backend node; the table list is taken from parser/metadata.go; malformed SELECT/USE "
         "not asserted; trusts the fake backend and the tracer ordering for the 'no backend frame' verdict; the failed-USE path is run on a core of rows only.",
    design="§6 C09")

NOT_YET = "check not built yet in this session (planned, see DESIGN.md §6)"


def main():
    props = [json.loads(l)["id"] for l in open(os.path.join(core.VERIF, "properties.jsonl"))]
    log = subprocess.run(["git", "-C", core.REPO, "log", "--format=%h %s"], stdout=subprocess.PIPE).stdout.decode()
    hooks = [l.split()[0] for l in log.splitlines() if l.split(" ", 1)[1].startswith("verif:")]
    checks = []
    for pid in props:
        if pid not in CHECKS:
            continue
        c = CHECKS[pid]
        checks.append({
            "property_id": pid,
            "quick_cmd": "./vcheck run %s --tier quick" % pid,
            "thorough_cmd": "./vcheck run %s --tier thorough" % pid,
            "evidence_file": "/verif/evidence/%s.json" % pid,
            "replay_cmd_template": "./vcheck replay %s {path}" % pid,
            "engine": "vcheck",
            "level_claimed": {"category": c["category"], "text": c["text"], "design_ref": c["design"]},
            "level_note": c["note"],
            "technique": c["technique"],
        })
    na = [{"property_id": p, "reason": NA.get(p, NOT_YET)} for p in props if p not in CHECKS]
    m = {
        "version": 1,
        "setup_cmd": "./vcheck setup",
        "hooks": {
            "guard": "verif",
            "enable": "go build -tags verif (the harness module /verif/harness replaces github.com/datastax/cql-proxy with /repo)",
            "baseline_off_cmd": "cd /repo && go test -mod=mod -vet=off -count=1 -timeout 25m ./...",
            "source_commits": hooks,
            "add_only": True,
        },
        "engines": [{
            "name": "vcheck",
            "path": "/verif/vcheck",
            "serves_properties": sorted(CHECKS),
            "kind_free_text": "python orchestrator: TLC model checking of /verif/spec/*.tla, export of TLC tables/behaviours as JSON, "
                              "replay into the real code by the Go driver /verif/harness/cmd/vdrv (built with -tags verif against /repo), "
                              "TLC trace validation of traces recorded from the real code",
        }],
        "checks": checks,
        "not_applicable": na,
        "notes": "Exit codes: 0 held, 1 violation (VIOLATION line), 2 inconclusive (infrastructure). Known findings and repaired "
                 "defects are listed in /verif/known_findings.txt.",
    }
    with open(os.path.join(core.VERIF, "MANIFEST.json"), "w") as f:
        json.dump(m, f, indent=1)
    print("MANIFEST.json: %d checks, %d not_applicable" % (len(checks), len(na)))


NA = {}

if __name__ == "__main__":
    main()
