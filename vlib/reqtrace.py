"""Normalises raw harness traces (NDJSON written by `vdrv req`) into the event vocabulary of
TraceRequestObs.tla: small integer ids, host names h1..hn, outcome classes.  It only renames and
filters; it never guesses state."""
import json
import re

KIND_MAP = {"prepared": "ok"}
CLASS_RE = re.compile(r"^(idem|nonidem)(\+cached)?\|([A-Z]+)\|(.*)$")


def normalise(raw_events):
    """Returns (events, hosts, numconns, reqinfo) where reqinfo maps request id -> description."""
    out = []
    reqinfo = {}
    nreq = 0
    max_hosts = []
    numconns = 1
    # split into rounds: a round starts at the first event after a Quiet/NotQuiet or at file start
    rounds = []
    cur = []
    for e in raw_events:
        cur.append(e)
        if e["ev"] in ("Quiet", "NotQuiet"):
            rounds.append(cur)
            cur = []
    if cur:
        rounds.append(cur)
    for rnd in rounds:
        registered = {e["b"] for e in rnd if e["ev"] == "BackendRegister"}
        hostmap = {}
        ready = False
        started = False
        tok2r = {}
        key2r = {}
        cid = {}
        taken = set()
        # (a local port may be in use towards several nodes at once: a backend connection is identified by its local address
        # AND its node)
        local2b = {}  # filled as the connections appear (a closed connection's address may be used again later)
        prepmap = {}
        anshash = {}
        keylist = {}
        pre_ord = {}  # scenario clients forward nothing before ScenarioStart

        def byord(e):
            """request a hook event refers to: the ord-th request submitted on (client, stream) in this round"""
            lst = keylist.get((e["caddr"], e["stream"]), [])
            o = e.get("ord", 0)
            # requests created before ScenarioStart (set-up traffic) also consumed ordinals on their pair
            o -= pre_ord.get((e["caddr"], e["stream"]), 0)
            if 1 <= o <= len(lst):
                return lst[o - 1]
            return None
        # requests of clients that hung up without reading (class ...|churn) and whose answer was never seen by anybody are
        # projected away: the specification says nothing about an answer nobody received, and tens of thousands of
        # never-finished requests make the validation quadratic.  An answer of such a request that surfaces on ANOTHER
        # connection still carries its token and is judged there (no request of that client has it).
        answered_toks = {e.get("t") for e in rnd if e["ev"] == "ClientRecv" and e.get("t")}
        projected = {e["t"] for e in rnd if e["ev"] == "ClientSend" and e.get("class", "").endswith("|churn")
                     and e.get("t") and e["t"] not in answered_toks}
        since_gc = 0
        out.append({"ev": "Reset"})
        for e in rnd:
            if e["ev"] == "Ready":
                hosts = e["hosts"]
                numconns = e.get("numconns", 1)
                for i, hk in enumerate(hosts):
                    hostmap[hk] = "h%d" % (i + 1)
                    hostmap[hk.rsplit(":", 1)[0]] = "h%d" % (i + 1)
                if len(hosts) > len(max_hosts):
                    max_hosts = ["h%d" % (i + 1) for i in range(len(hosts))]
        # second walk with host map known
        ready = False
        started = False
        early_conns = []
        for e in rnd:
            ev = e["ev"]
            if ev == "BackendConn":
                local2b[(e.get("local"), e.get("host"))] = e["b"]
            if ev == "BackendConn":
                if e["b"] in registered:
                    continue
                if not ready:
                    early_conns.append(e)
                else:
                    out.append({"ev": "Conn", "b": e["b"], "h": hostmap.get(e["host"], e["host"]), "init": False,
                                "sess": "%s|%s" % (e.get("version", 4), e.get("compression", ""))})
            elif ev == "Ready":
                ready = True
                for c in early_conns:
                    out.append({"ev": "Conn", "b": c["b"], "h": hostmap.get(c["host"], c["host"]), "init": True,
                                "sess": "%s|%s" % (c.get("version", 4), c.get("compression", ""))})
            elif ev == "ScenarioStart":
                started = True
            elif not started:
                # setup traffic (handshakes, PREPAREs) is not part of the validated behaviour,
                # but connection drops during setup are
                if ev == "BackendDrop" and e["b"] not in registered and ready:
                    out.append({"ev": "Drop", "b": e["b"]})
                continue
            elif ev == "ClientSend":
                m = CLASS_RE.match(e.get("class", ""))
                if not m:
                    continue
                if e.get("t") in projected:
                    keylist.setdefault((e["caddr"], e["stream"]), []).append(None)  # keeps the ordinals of the pair
                    continue
                nreq += 1
                r = nreq
                tok2r[e["t"]] = r
                key2r[(e["caddr"], e["stream"])] = r
                keylist.setdefault((e["caddr"], e["stream"]), []).append(r)
                reqinfo[r] = {"scenario": m.group(4), "class": m.group(1), "op": m.group(3), "tok": e["t"],
                              "client": e["c"], "stream": e["stream"]}
                out.append({"ev": "Submit", "r": r, "c": e["c"], "s": e["stream"], "idem": m.group(1) == "idem",
                            "op": m.group(3), "cached": bool(m.group(2)), "t": e["t"], "sess": e.get("sess", "4|")})
            elif ev == "BackendRecv":
                if e["b"] in registered or e.get("t") in projected:
                    continue
                r = tok2r.get(e["t"], 0)
                if e["op"] == "PREPARE" and (e["b"], e["bstream"]) in prepmap:
                    r = prepmap.pop((e["b"], e["bstream"]))
                elif e["op"] == "PREPARE" and not r and prepmap:
                    # a re-PREPARE (no client request carries it) on a (connection, stream) that the proxy did not register
                    # for one, while re-PREPAREs ARE registered elsewhere: it went out under a stream id that is not its own
                    out.append({"ev": "StrayPrepare", "b": e["b"], "bs": e["bstream"],
                                "registered": sorted("%s/%s" % k for k in prepmap)[:6]})
                    continue
                taken.add((e["b"], e["bstream"]))
                out.append({"ev": "Take", "r": r, "h": hostmap.get(e["host"], e["host"]), "b": e["b"],
                            "bs": e["bstream"], "op": e["op"]})
            elif ev == "BackendBadFrame":
                if e["b"] in registered:
                    continue
                isprep = (e["b"], e["bstream"]) in prepmap
                r = prepmap.pop((e["b"], e["bstream"])) if isprep else 0
                out.append({"ev": "BadFrame", "r": r, "b": e["b"], "bs": e["bstream"], "prep": isprep})
            elif ev == "BackendReply":
                if e.get("h") and e.get("t"):
                    anshash.setdefault(e["t"], set()).add(e["h"])
                if (e["b"], e["bstream"]) in taken:
                    taken.discard((e["b"], e["bstream"]))
                    out.append({"ev": "Answer", "b": e["b"], "bs": e["bstream"], "o": e["o"]})
            elif ev == "BackendDrop":
                if e["b"] in registered:
                    continue
                for k in [k for k in taken if k[0] == e["b"]]:
                    taken.discard(k)
                out.append({"ev": "Drop", "b": e["b"]})
            elif ev == "ClientRecv":
                if e["kind"] in ("ready", "supported", "event"):
                    continue
                hs = anshash.get(e.get("t") or "")
                if hs and e.get("h") and e["h"] not in hs and e["kind"] not in ("nohosts", "connclosed"):
                    # the frame names this request's token but is, byte for byte, none of the answers a backend gave to it
                    out.append({"ev": "Altered", "c": e["c"], "s": e["stream"], "t": e["t"], "tr": tok2r.get(e["t"], 0)})
                out.append({"ev": "Reply", "c": e["c"], "s": e["stream"], "kind": KIND_MAP.get(e["kind"], e["kind"]),
                            "t": e.get("t", ""), "tr": tok2r.get(e.get("t", ""), 0),
                            "node": hostmap.get(e.get("node", ""), e.get("node", ""))})
                since_gc += 1
                if since_gc >= 100:
                    since_gc = 0
                    out.append({"ev": "GC"})
            elif ev in ("ClientClose", "ClientClosed"):
                out.append({"ev": "ClientClose", "c": e["c"]})
            elif ev == "H.sendfail":
                r = byord(e)
                h = hostmap.get(e["host"])
                if r and h:
                    out.append({"ev": "SendFail", "r": r, "h": h, "why": e["why"]})
            elif ev == "H.prepstore":
                r = byord(e)
                b = local2b.get((e["local"], (e.get("host") or "").split(":")[0]))
                if r and b:
                    prepmap[(b, e["bstream"])] = r
            elif ev == "H.onclose":
                r = byord(e)
                h = hostmap.get(e["host"])
                if r and h:
                    out.append({"ev": "OnClose", "r": r, "h": h})
            elif ev == "Quiet":
                out.append({"ev": "Quiet"})
    return out, max_hosts, numconns, reqinfo
