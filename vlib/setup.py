"""setup: parse every TLA+ module with SANY and warm the Go build cache (offline)."""
import glob
import os
import shutil
import subprocess
import sys
import tempfile

from . import core


def main():
    rc = 0
    d = tempfile.mkdtemp(prefix="vsetup-")
    try:
        sd = os.path.join(d, "spec")
        shutil.copytree(core.SPEC, sd)
        for f in sorted(glob.glob(os.path.join(sd, "*.tla"))):
            if "EXTENDS" in open(f).read() and " Apalache" in open(f).read().split("EXTENDS", 1)[1].split("\n", 1)[0]:
                # modules written for Apalache extend its own standard module, which SANY does not know: parse and
                # type-check them with Apalache itself
                p = subprocess.run(["apalache-mc", "typecheck", os.path.basename(f)], cwd=sd, stdout=subprocess.PIPE, stderr=subprocess.STDOUT)
                out = p.stdout.decode("utf-8", "replace")
                bad = p.returncode != 0 or "EXITCODE: OK" not in out
                print("[apalache typecheck] %-15s %s" % (os.path.basename(f), "FAILED" if bad else "ok"))
                if bad:
                    print(out[-3000:])
                    rc = 1
                continue
            p = subprocess.run(["java", "-cp", core.TLA_CP, "tla2sany.SANY", os.path.basename(f)], cwd=sd,
                               stdout=subprocess.PIPE, stderr=subprocess.STDOUT)
            out = p.stdout.decode("utf-8", "replace")
            bad = p.returncode != 0 or "*** Errors" in out or "Fatal errors" in out or "Could not parse" in out
            print("[sany] %-28s %s" % (os.path.basename(f), "FAILED" if bad else "ok"))
            if bad:
                print(out[-3000:])
                rc = 1
        env = dict(os.environ)
        env["GOFLAGS"] = "-mod=mod"
        env["GOPROXY"] = "off"
        env.pop("GOSUMDB", None)
        for race in (False, True):
            cmd = ["go", "build", "-tags", "verif", "-o", os.path.join(d, "vdrv")]
            if race:
                cmd.insert(2, "-race")
            cmd.append("./cmd/vdrv")
            p = subprocess.run(cmd, cwd=core.HARNESS, env=env, stdout=subprocess.PIPE, stderr=subprocess.STDOUT)
            print("[go] build driver race=%s rc=%d" % (race, p.returncode))
            if p.returncode != 0:
                print(p.stdout.decode("utf-8", "replace")[-3000:])
                rc = 1
    finally:
        shutil.rmtree(d, ignore_errors=True)
    return rc


if __name__ == "__main__":
    sys.exit(main())
